#!/bin/sh
# usage: vf/mkwt.sh <name> : scratch git worktree of /repo's HEAD under /tmp/mut, pre-built (build outputs copied from /repo)
wt=/tmp/mut/wt-$1
mkdir -p /tmp/mut
git -C /repo worktree remove --force $wt 2>/dev/null
git -C /repo worktree add -q --detach $wt HEAD || exit 1
rsync -a --exclude .git --exclude 'tests/tests-c-compiler/test-check*' --exclude 'tests/tests-randomized/.tmp.*' /repo/ $wt/
/verif/vf/wtfix.sh $wt >/dev/null 2>&1
( cd $wt && make -j8 >/dev/null 2>&1 ); echo "$wt build_exit=$? status: $(git -C $wt status --short | grep -v '^??' | wc -l) modified"
