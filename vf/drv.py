"""Run driver scripts, collect per-case event logs, survive crashes and hangs."""
import os, re, subprocess, tempfile, signal
from concurrent.futures import ThreadPoolExecutor
from . import build


class Case:
    __slots__ = ("cid", "ops", "meta")

    def __init__(self, cid, ops, meta=None):
        self.cid = cid
        self.ops = ops          # list of script lines (without B/E)
        self.meta = meta or {}


class Result:
    __slots__ = ("cid", "events", "status", "end", "stderr", "signal", "confirmed")

    def __init__(self, cid):
        self.cid = cid
        self.events = []        # list of dicts {"op":..., k:v}
        self.status = "notrun"  # ok | crash | hang | notrun
        self.end = {}
        self.stderr = ""
        self.signal = 0
        self.confirmed = None


def parse_ev(line):
    parts = line.split(" ")
    d = {"op": parts[1]}
    for kv in parts[2:]:
        i = kv.find("=")
        if i > 0:
            d[kv[:i]] = kv[i + 1:]
    return d


def unhex(h):
    if h is None or h == "-" or h == "":
        return b""
    return bytes.fromhex(h)


def hx(b):
    return b.hex() if b else "-"


def _run_once(exe, cases, env, timeout, workdir):
    """Run cases in one process. Returns (results dict, index of first case not completed or None, crashinfo)."""
    fd, path = tempfile.mkstemp(prefix="script.", suffix=".txt", dir=workdir)
    with os.fdopen(fd, "w") as f:
        for c in cases:
            f.write("B %d\n" % c.cid)
            for op in c.ops:
                f.write(op)
                f.write("\n")
            f.write("E %d\n" % c.cid)
    try:
        p = subprocess.run([exe, path], stdout=subprocess.PIPE, stderr=subprocess.PIPE, env=env,
                           timeout=timeout)
        out, err, rc = p.stdout, p.stderr, p.returncode
        timed_out = False
    except subprocess.TimeoutExpired as e:
        out, err, rc = e.stdout or b"", e.stderr or b"", -9
        timed_out = True
    finally:
        try:
            os.unlink(path)
        except OSError:
            pass
    results = {}
    cur = None
    hang = None
    for raw in out.decode("latin-1").split("\n"):
        if raw.startswith("R "):
            if cur is not None:
                cur.events.append(parse_ev(raw))
        elif raw.startswith("BEGIN "):
            cid = int(raw[6:])
            cur = Result(cid)
            cur.status = "open"
            results[cid] = cur
        elif raw.startswith("END "):
            parts = raw.split(" ")
            if cur is not None:
                cur.status = "ok"
                for kv in parts[2:]:
                    i = kv.find("=")
                    if i > 0:
                        cur.end[kv[:i]] = kv[i + 1:]
            cur = None
        elif raw.startswith("HANG "):
            hang = int(raw[5:])
    opencase = None
    for cid, r in results.items():
        if r.status == "open":
            opencase = cid
            if hang == cid or timed_out:
                r.status = "hang"
            else:
                r.status = "crash"
                r.signal = -rc if rc < 0 else rc
            r.stderr = err.decode("latin-1")[-6000:]
    return results, opencase, rc


def run_cases(exe, cases, env=None, per_case_timeout=60, workdir=None, confirm=True):
    """Run all cases sequentially in as few processes as possible."""
    env = env or build.san_env()
    workdir = workdir or os.path.dirname(exe)
    out = {}
    todo = list(cases)
    while todo:
        res, opencase, rc = _run_once(exe, todo, env, max(120, per_case_timeout * 4 + len(todo) // 20), workdir)
        out.update(res)
        if opencase is None:
            # finished (or died before the first BEGIN)
            done = set(res)
            rest = [c for c in todo if c.cid not in done]
            if rest and len(rest) == len(todo):
                # nothing ran at all: harness problem
                for c in rest:
                    r = Result(c.cid)
                    r.status = "crash"
                    r.stderr = "driver produced no output (rc=%s)" % rc
                    out[c.cid] = r
                break
            todo = rest
            continue
        idx = [i for i, c in enumerate(todo) if c.cid == opencase][0]
        if confirm:
            # re-run the failing case alone to confirm and to get a clean report
            r2, oc2, rc2 = _run_once(exe, [todo[idx]], env, per_case_timeout * 4, workdir)
            first = out[opencase]
            second = r2.get(opencase)
            if second is not None and second.status in ("crash", "hang"):
                first.confirmed = True
                first.stderr = second.stderr or first.stderr
                first.events = second.events
                first.status = second.status
            else:
                first.confirmed = False
        todo = todo[idx + 1:]
    return out


def run_parallel(exe, cases, env=None, jobs=None, per_case_timeout=60, workdir=None, confirm=True):
    jobs = jobs or build.JOBS
    if not cases:
        return {}
    n = min(jobs, max(1, len(cases) // 8))
    chunks = [cases[i::n] for i in range(n)]
    out = {}
    with ThreadPoolExecutor(n) as ex:
        for r in ex.map(lambda ch: run_cases(exe, ch, env, per_case_timeout, workdir, confirm), chunks):
            out.update(r)
    return out


SAN_RE = re.compile(r"(ERROR: AddressSanitizer: ([\w-]+)|runtime error: ([^\n]+)|ERROR: LeakSanitizer|"
                    r"Assertion `([^']+)' failed|WARNING: ThreadSanitizer: ([\w ]+))")
FRAME_RE = re.compile(r"#\d+ 0x[0-9a-f]+ in (\S+) (\S+)")


def classify_report(stderr):
    """-> (kind, top library frame) from a sanitizer/abort report"""
    kind = "signal"
    m = SAN_RE.search(stderr or "")
    if m:
        if m.group(2):
            kind = m.group(2)
        elif m.group(3):
            kind = "ub:" + re.sub(r"0x[0-9a-f]+|\d+", "N", m.group(3))[:60]
        elif m.group(4):
            kind = "assert:" + m.group(4)[:60]
        elif m.group(5):
            kind = "tsan:" + m.group(5)
        else:
            kind = "leak"
    frame = "?"
    for fm in FRAME_RE.finditer(stderr or ""):
        fn, loc = fm.group(1), fm.group(2)
        if "/vf/driver/" in loc or fn.startswith("__") or "sanitizer" in loc or "libc" in loc \
                or fn in ("main", "_start", "memcpy", "memset", "memmove", "memcmp", "strlen", "abort", "raise",
                          "__assert_fail", "free", "malloc", "calloc", "realloc"):
            continue
        frame = fn
        break
    return kind, frame
