"""Regenerate /verif/MANIFEST.json from the table below:  /usr/bin/python3 -m vf.manifest"""
import json, os

HERE = os.path.dirname(os.path.dirname(os.path.abspath(__file__)))

CHECKS = {
    "C16": dict(level="exploration", engine="hdriver", ref="DESIGN.md 4/C16",
                technique="sanitizer-watched helper-API workload + reference-model monitor (Python bigint / from-bits DER REAL) over the recorded call log",
                text="Every asn_*2INTEGER / asn_INTEGER2* / asn_double2REAL / asn_REAL2double / asn_strto*_lim call on a boundary-exhaustive "
                     "plus random input set is executed in an ASan+UBSan build of the current skeletons and its result compared with an "
                     "independent arithmetic oracle; exhaustive only for INTEGER octet strings of length <= 2.",
                note="Trusts the Python reference (big integers, struct.pack doubles, vf/asn/der.py:real_octets); LP64 host; values explored, not all 2^64."),
    "C17": dict(level="exploration", engine="hdriver", ref="DESIGN.md 4/C17",
                technique="sanitizer-watched helper-API workload under several TZ environments + reference-model monitor (Python int/datetime) over the call log",
                text="OBJECT IDENTIFIER / RELATIVE-OID arc setters/getters/parsers and the GeneralizedTime/UTCTime converters are executed "
                     "(ASan+UBSan) on boundary and random arc vectors, raw octet strings (non-minimal, unterminated, overflowing) and "
                     "time_t values across years 1..9999, the time part once per TZ (fixed-offset, half-hour, DST, zoneinfo) in its own process.",
                note="Trusts Python datetime/integers; UTCTime judged for 1960..2049 only; t == -1 fraction not judged (in-band error value)."),
    "C20": dict(level="exploration", engine="tools-monitor", ref="DESIGN.md 4/C20",
                technique="differential round-trip monitor (unber -p | enber) + independent TLV parser over unber's printed attributes + ASan-watched hostile inputs",
                text="unber and enber built from the current tree with ASan are run on random well-formed TLV forests (all classes, tag numbers "
                     "across 30/31 and multi-octet forms, definite/indefinite, nesting) and reference DER of generated types; output must "
                     "re-encode to the identical bytes and every O/T/TL/V/L attribute must equal the independent parse; mutated, random and "
                     "nesting-bomb inputs check the safety clause (exit status, diagnostic, no sanitizer report, no hang).",
                note="Trusts vf/asn/der.py:parse_tlv; inputs are sampled; bombs to depth 10^4 (quick) / 10^5 (thorough). unber's default (value-printing) mode runs on the whole corpus and on hostile inputs (sanitizer/signal only). The BER sample PDUs shipped under examples/ are part of the corpus."),
    "C01": dict(level="exploration", engine="vdriver", ref="DESIGN.md 4/C01",
                technique="sanitizer-watched round-trip/transcoding workload over generated modules; self-consistency monitor over the driver event log with an independent DER anchor",
                text="Generated modules over the type algebra of the statement are compiled with the asn1c of the current tree and linked (ASan+UBSan+ledger) "
                     "with the generic driver; boundary-biased values enter through the reference DER and are pushed through every ordered pair of the five "
                     "syntaxes; each step is judged for rc, consumed==produced, compare_struct and DER equality.",
                note="Values enter by ber_decode of the reference DER (entry failures counted inconclusive); constructs with a listed known finding are run only as targeted cases; values sampled. The shipped X.509 / LDAP (thorough: UMTS RRC) example specifications with their shipped sample PDUs, produced by other implementations, run through the same judgement (vf/realpdu.py)."),
    "C04": dict(level="exploration", engine="vdriver", ref="DESIGN.md 4/C04",
                technique="ASan+UBSan+allocation-ledger watched decoding of structure-aware mutants; return-value and post-decode lifecycle monitor",
                text="Valid encodings in BER/OER/UPER/XER of generated (incl. recursive) types are truncated at every offset, bit-flipped, length-edited, spliced "
                     "and randomised; every mutant is decoded, then the structure printed, validated, re-encoded in five syntaxes and freed under sanitizers, a "
                     "watchdog and the ledger (leaks, encoder-held allocations).",
                note="Sanitizers only see executed paths; nonnull-attribute UBSan check disabled (zero-length libc calls); mutants sampled, no coverage guidance in quick. The shipped X.509 / LDAP (thorough: UMTS RRC) example specifications with their shipped sample PDUs, produced by other implementations, run through the same judgement (vf/realpdu.py)."),
    "C05": dict(level="exploration", engine="vdriver", ref="DESIGN.md 4/C05",
                technique="history monitor: chunked vs one-shot decoding of the same bytes, exhaustive over 2-chunk split points of each explored encoding",
                text="Reference DER, reference BER variants (indefinite, constructed strings, long lengths) and the library's own OER/XER output are decoded one-shot "
                     "and with the manual's restart protocol at every split point and on sampled k-chunk schedules (1-byte feeding, zero-byte presentations); final rc, "
                     "total consumed, DER of the result and RC_WMORE on prefixes are compared; resumption states seen are counted.",
                note="UPER excluded (documented non-restartable); exhaustive only over 2-splits of encodings up to the length cap; known restart defects (BER indefinite/constructed strings, OER) are listed findings. The shipped X.509 / LDAP (thorough: UMTS RRC) example specifications with their shipped sample PDUs, produced by other implementations, run through the same judgement (vf/realpdu.py)."),
    "C14": dict(level="fault_enumeration", engine="vdriver", ref="DESIGN.md 4/C14",
                technique="allocation-failure enumeration through a link-time allocator ledger + lifecycle history monitor under ASan",
                text="For each PDU/value/syntax: histories over decode-prefix, decode-garbage, RESET, re-decode, encode, failing callback, FREE_CONTENTS_ONLY, FREE; and for "
                     "every decoder and encoder call the failure of the k-th allocation for each k reached (capped); the ledger decides leaks / encoder-held allocations, "
                     "RESET must leave zero bytes and a later decode must equal a decode into a fresh structure.",
                note="Single allocation fault per call; k capped (24 quick / 120 thorough); the output callback fails once at every call index (first 16); one module with long strings so that staging buffers flush inside open-type bodies; allocator interposed by --wrap on the libc names. The shipped X.509 / LDAP (thorough: UMTS RRC) example specifications with their shipped sample PDUs, produced by other implementations, run through the same judgement (vf/realpdu.py)."),
    "C15": dict(level="exploration", engine="vdriver", ref="DESIGN.md 4/C15",
                technique="adversarial-input workload in a small-stack thread with process-signal, allocation-ledger and watchdog monitors",
                text="Recursive/collection types are decoded from model-built nesting bombs (depth 10..10^5, 10^6 thorough; BER definite/indefinite/constructed strings, XER, UPER, OER), "
                     "maximal length prefixes and zero-width element floods, in a 256 KiB-stack thread with default and caller-supplied max_stack_size; death by signal = stack "
                     "exhaustion; ledger peak must stay below 64 KiB + 8 KiB per input byte.",
                note="Fixed module; depth bounded; nesting also inside TLVs the decoder only skips (unknown extension additions, ANY); heap constant deliberately generous; ledger ceiling 256 MiB stops runaway decoders; plain build for stack clause, ASan build for memory errors."),
    "C07": dict(level="fault_enumeration", engine="vdriver", ref="DESIGN.md 4/C07",
                technique="fault enumeration over encoder calls (callback failure index, buffer size, allocation failure) with ASan red zones and a return-value/errno monitor",
                text="For valid, constraint-violating and walker-damaged structures and each of the five encoders: counting callback, callback failure at every "
                     "invocation index (capped at 48), asn_encode_to_buffer into exact-size heap buffers of every size 0..n,n+1,n+7, asn_encode_to_new_buffer "
                     "also under allocation failure; invariants on rc, errno, bytes delivered, NULL-on-failure, no crash/abort/hang; success on an invalid "
                     "structure must decode back to an equal value.",
                note="Structures reachable through BER decoding plus seven walker transformations; fixed modules drive encodings across power-of-two totals, fixed-size strings with wrong lengths, stored DEFAULTs; sizes sampled above 64 bytes; one fault per call. A mandatory pointer member is also removed by name (mutually recursive types) and must make every encoder fail; one -fwide-types build with INTEGERs up to 2^300."),
    "C12": dict(level="exploration", engine="compiler-monitor", ref="DESIGN.md 4/C12",
                technique="history monitor over repeated / permuted / print-reparse runs of the ASan-built asn1c with byte comparison of outputs",
                text="The asn1c of the current tree is run on generated single- and multi-module sets and on the shipped modern-syntax corpus: twice (three times) under "
                     "perturbed ASLR, MALLOC_PERTURB_, environment size and build flavour with all emitted files compared; under permutations of the file list with the "
                     "per-type files compared; and through asn1c -E / -E -F print, re-parse, re-print (fixpoint) and, for generated modules, asn1c -P equality.",
                note="Also module sets with clashing top-level names under permutation (-fcompound-names), EXTENSIBILITY IMPLIED headers and a fixed value-notation module. Uninitialised-memory dependence is only seen if it changes output in the runs made; shipped files whose printed text is not re-accepted are listed findings (one per file and diagnostic); inconclusive when most generated sets are rejected."),
    "C11": dict(level="exploration", engine="compiler-monitor", ref="DESIGN.md 4/C11",
                technique="differential monitor: exit status / diagnostic / output directory of the ASan-built asn1c against an independent executable model of the X.680 distinctness rules, over single-edit mutants",
                text="Tag-structure modules under EXPLICIT/IMPLICIT/AUTOMATIC tagging with manual tags, reference chains and nested untagged CHOICEs are generated "
                     "unambiguous by construction; every single-edit mutant (retag, untag, type swap, make-OPTIONAL, duplicate identifier, duplicate enumeration "
                     "name/value, dangling reference) is judged by the model and by asn1c; acceptance must coincide, rejections must carry a diagnostic and write no file.",
                note="Trusts vf/checks/c11faults.py:problems and vf/asn/model.py tag algebra; COMPONENTS OF, parameterised types not generated; enumerations with negative values and ascending additions; systematic catalogue of carrier pairs; mutants sampled (40/400 per base). The project's own verdicts are checked too: shipped files marked -SE must be rejected with a diagnostic and no output, files marked -OK must pass asn1c -E -F."),
    "C10": dict(level="exploration", engine="compiler-monitor", ref="DESIGN.md 4/C10",
                technique="process-level monitor of the ASan-built asn1c (exit status, signals, sanitizer reports, diagnostics) plus build-and-walk monitor of the delivered file set",
                text="Generated valid modules and single-fault mutants (tag collisions, duplicate identifiers/enumeration items, dangling references, inverted ranges, mistyped "
                     "DEFAULTs) are compiled under each documented option alone and random option subsets; on exit 0 exactly the delivered files are compiled as C99, "
                     "linked with the generic driver, the headers parsed as C++, and a descriptor-consistency walk (offsets, tag maps, optional-member tables, PER ranges, "
                     "enumeration maps) run over every PDU; on rejection a diagnostic is required.",
                note="Plus a fixed constructs module under every option, hand-written faulty modules and nine information-object-class shapes under three option sets. Warnings ignored; UBSan reports of the compiler recorded only, except null-pointer reports, which are confirmed on an uninstrumented -O0 build (death by signal = verdict); option subsets sampled; descriptor walk checks structural invariants, not semantics; inconclusive when most valid modules are rejected. The shipped corpus (tests-asn1c-compiler/*-OK.asn1, examples/*.asn1; quick: 30 files, thorough: all under three option sets) goes through the same compile/link/walk pipeline."),
    "C02": dict(level="exploration", engine="vdriver", ref="DESIGN.md 4/C02",
                technique="differential monitor: asn_encode output compared byte for byte with independent reference encoders (DER, canonical UPER, canonical OER) over generated modules, ASan-watched",
                text="Generated modules plus a fixed module of boundary shapes (16K-multiple lengths in strings and open types, long OPTIONAL runs, tag numbers at the "
                     "short/long form limits) are compiled against the current tree; each value enters through the reference DER and its DER / UPER / OER encodings "
                     "are compared with vf/asn/der.py, uper.py, oer.py written from X.690/X.691/X.696.",
                note="Trusts the reference encoders (cross-checked against the vectors and hand-triaged disagreements recorded in DESIGN.md); subset excludes time types under UPER, SET under UPER/OER, untagged CHOICE alternatives under OER; constructs with listed findings run as targeted minority. The shipped sample PDUs (X.509 certificate DER, LDAP BER, thorough: UMTS RRC UPER) are a second, foreign reference: decode + encode must return them octet for octet."),
    "C03": dict(level="exploration", engine="vdriver", ref="DESIGN.md 4/C03",
                technique="differential monitor: decoders fed with model-generated alternative valid encodings; result compared with the reference DER of the value",
                text="For each generated value the reference model emits its DER encoding and members of the BER variant families (long-form lengths, indefinite lengths, "
                     "constructed/nested strings, SET and SET OF permutations, explicit DEFAULT values, non-FF TRUE, unknown extension additions) and the reference "
                     "UPER/OER encodings (also as sent by a 'version 2' peer: unknown extension additions in several presence patterns); XER: value-preserving "
                     "rewritings of the library's own BASIC/CANONICAL-XER documents (white-space and comments between elements, empty-element tags, white-space inside "
                     "tags, prolog); every one must decode RC_OK, consume everything and re-encode to the reference DER. Fixed shapes modules (SH, SH2) are included.",
                note="Only encodings the standards make valid are generated; there is no independent XER encoder (rewritings of the library's own, well-formed documents only); variants sampled (3/12 per family and value). The shipped X.509 / LDAP (thorough: UMTS RRC) example specifications with their shipped sample PDUs, produced by other implementations, run through the same judgement (vf/realpdu.py)."),
    "C06": dict(level="exploration", engine="vdriver", ref="DESIGN.md 4/C06",
                technique="metamorphic monitor: canonical encoder outputs of equivalent in-memory representations compared byte for byte (ASan-watched)",
                text="The structure decoded from the reference DER is the base; equivalent representations are made in memory by a descriptor-driven walker (SET OF "
                     "permutation, INTEGER sign-extension padding, DEFAULT materialisation via default_value_set, unused-bit noise) and by decoding valid non-canonical "
                     "BER of the same value (member reordering, explicit DEFAULTs, dirty unused bits, constructed strings, length forms); DER, CANONICAL-XER, canonical "
                     "UPER and OER of each must equal the base's and compare_struct must be 0; default and -fwide-types builds.",
                note="Only value-preserving transformations; transformations without a site in the value are not counted; values sampled. BER variants include non-DER notations of GeneralizedTime/UTCTime values (findings listed for UTCTime everywhere and GeneralizedTime under PER/OER)."),
    "C08": dict(level="exploration", engine="vdriver", ref="DESIGN.md 4/C08",
                technique="reference-model monitor: asn_check_constraints verdicts on valid / single-fault / multi-fault values vs X.680 constraint-set semantics; exact-size error buffers under ASan",
                text="Generated modules with non-extensible value/SIZE/FROM constraints at every depth; valid values, single-fault mutants (one constraint violated at one "
                     "position, every gap and both bounds) and multi-fault mutants enter by BER; asn_check_constraints is called with error buffers of 0/1/2/16/128 bytes "
                     "and NULL; the verdict must equal the model's, must not depend on the buffer, and a failure message must be terminated, fit, and name a type.",
                note="Plus a fixed module of constraint shapes (unions/intersections/EXCEPT at type-width boundaries, constrained collections by reference) and error buffers of exactly the message length +-1. Extensible constraints, WITH COMPONENTS, PATTERN, CONTAINING not generated; BMPString U+FFFE/U+FFFF values are not judged; sampled values."),
    "C09": dict(level="exploration", engine="vdriver", ref="DESIGN.md 4/C09",
                technique="reference-model monitor: UPER/OER bytes and asn1c -print-constraints ranges of systematically enumerated constraint trees vs the X.691 10.3 / X.696 8.2 effective constraint; equivalence classes of types compared with each other",
                text="Every constraint tree of depth <= 2 over a small universe (INTEGER values, SIZE of OCTET/BIT/IA5 strings and SEQUENCE OF), with and without extension "
                     "marker and additions, serial application and reference chains, random trees over 64-bit/16K/64K boundaries; values at and around every bound enter "
                     "by BER, are encoded in UPER and OER by the generated codecs (ASan build) and compared with the reference encoders; own output must decode back; "
                     "printed PER-/OER-visible ranges must have the reference bounds and extensibility; types with equal effective constraints must produce equal bytes.",
                note="Also sampled depth-3 trees and contained subtypes (INCLUDES); quick runs a seed-dependent slice of the depth-2 tree space, thorough all of it; values are sampled around the bounds, not enumerated; values in holes of an extensible root are not judged. Also unions narrowed across two of their pieces and SIZE bounds on the 64K edge."),
    "C13": dict(level="exploration", engine="vdriver", ref="DESIGN.md 4/C13",
                technique="differential monitor: the same (module, value) script run by drivers generated under different asn1c option sets; event logs (rc, bytes) compared column by column with the default build's (ASan-watched)",
                text="One module is generated under subsets of {-fwide-types, -fcompound-names, -findirect-choice, -fno-include-deps, -fincludes-quoted, -fno-constraints} "
                     "and with -no-gen-OER / -no-gen-PER; every build decodes the reference DER, emits DER/UPER/OER/CXER/BXER and decodes the default build's outputs; "
                     "each column must equal the default build's (its own reading of its outputs is the yardstick for cross-decoding).",
                note="quick: default + each single option + 2 random subsets for 2 modules; thorough: all 64 subsets for 2 modules, random subsets for 8 more; option sets that do not build are inconclusive (C10). The fixed OPT module includes untagged CHOICE inside untagged CHOICE. The shipped X.509 / LDAP (thorough: UMTS RRC) example specifications with their shipped sample PDUs, produced by other implementations, run through the same judgement (vf/realpdu.py)."),
    "C18": dict(level="exploration", engine="vdriver", ref="DESIGN.md 4/C18",
                technique="reference-model + safety monitor: generated CLASS/object-set modules; open-type frames judged against reference DER / X.691 open-type framing and the element names in CANONICAL-XER; mismatches, unknown identifiers and mutants under ASan+UBSan with the allocation ledger",
                text="Modules with a CLASS { &id UNIQUE, &Type }, an object set of 1..8 rows (inline / named objects, extensible or not, INTEGER / INTEGER (0..255) / OBJECT IDENTIFIER "
                     "identifiers, primitive and constructed row types) and a Frame SEQUENCE with @ident / @.ident relation; every row x values: reference DER accepted, the paired "
                     "type shown under <value>, DER and UPER bytes equal to the reference framing, UPER/XER round trips; identifier of row i with bytes of row j, identifiers "
                     "without a row, and byte mutations of BER/UPER/XER encodings must fail (or succeed only if the row type's own decoder accepts the bytes) with no sanitizer "
                     "report and nothing allocated after FREE.",
                note="Shapes added: recursive row type (pointer variant) and nested frames, built-in and repeated row types, untagged frames, OPTIONAL open type, -fwide-types builds, white space/comments around the XER wrapper, allocation failures during frame decodes. OER is outside the statement; row types whose own codec does not round-trip a value (C01 findings) are not counted against the open type."),
    "C19": dict(level="exploration", engine="tdriver", ref="DESIGN.md 4/C19",
                technique="ThreadSanitizer + differential monitor: N threads run deterministic codec scripts over shared descriptors with seeded jitter between calls; per-thread result logs compared with the same scripts run alone; TSan reports with a library frame are violations",
                text="TSan build of skeletons + generated code + vf/driver/tdriver.c; 2/4/8/16 threads behind a barrier each decode, encode (all syntaxes, shuffled), validate, "
                     "print, convert time types, decode the library's own output, compare and free their own structures; repeated with different seeds and thread counts; "
                     "evidence counts the distinct (operation, type kind) pairs observed overlapping in time.",
                note="Schedules are sampled; asn_random_fill is not driven; quick: 1 module x 6 runs, thorough: 4 modules x 40 runs. Every other decode passes one static codec context shared by all threads; one round runs a module with an object set (generated type selectors), two more the shipped X.509 and LDAP specifications on their shipped sample PDUs."),
}

PENDING_REASON = "check not implemented yet (bring-up in progress; see DESIGN.md section 9)"


def main():
    props = [json.loads(l) for l in open(os.path.join(HERE, "properties.jsonl"))]
    checks = []
    na = []
    for p in props:
        pid = p["id"]
        c = CHECKS.get(pid)
        if not c:
            na.append({"property_id": pid, "reason": PENDING_REASON})
            continue
        checks.append({
            "property_id": pid,
            "quick_cmd": "./check %s quick" % pid,
            "thorough_cmd": "./check %s thorough" % pid,
            "evidence_file": "/verif/evidence/%s.json" % pid,
            "replay_cmd_template": "./check %s quick --replay {path}" % pid,
            "engine": c["engine"],
            "level_claimed": {"category": c["level"], "text": c["text"], "design_ref": c["ref"]},
            "level_note": c["note"],
            "technique": c["technique"],
        })
    engines = {}
    for pid, c in CHECKS.items():
        engines.setdefault(c["engine"], []).append(pid)
    ENG = {
        "hdriver": ("vf/driver/hdriver.c", "C driver calling the helper APIs, one call per script line (ASan+UBSan build)"),
        "vdriver": ("vf/driver/vdriver.c", "generic C codec driver over asn_pdu_collection[] with allocation ledger, struct walker, watchdog"),
        "compiler-monitor": ("vf/checks", "runs the asn1c built from the current tree (ASan) on generated modules and judges exit status / output"),
        "tdriver": ("vf/driver/tdriver.c", "multi-threaded C codec driver (TSan build): per-thread scripts, logs and CLOCK_MONOTONIC call stamps"),
        "tools-monitor": ("vf/checks/c20.py", "runs unber/enber built from the current tree (ASan) against an independent TLV parser"),
    }
    m = {
        "version": 1,
        "setup_cmd": "./check --setup",
        "hooks": {
            "guard": "VLM_ASN1C_VERIF",
            "enable": "vf/build.py compiles /repo sources directly with gcc and passes -DVLM_ASN1C_VERIF; no source hooks exist "
                      "(instrumentation is by compiler flags, --wrap and the public descriptors)",
            "baseline_off_cmd": "cd /repo && make check",
            "source_commits": [],
            "add_only": True,
        },
        "engines": [{"name": k, "path": ENG[k][0], "serves_properties": sorted(v), "kind_free_text": ENG[k][1]}
                    for k, v in sorted(engines.items())],
        "checks": checks,
        "notes": "Runtime monitoring / sanitizers only. Known genuine defects are listed in known_findings.json "
                 "(printed as KNOWN-FINDING lines, exit 0). VERIF_SEED and VERIF_REPO are honoured.",
        "not_applicable": na,
    }
    with open(os.path.join(HERE, "MANIFEST.json"), "w") as f:
        json.dump(m, f, indent=1)
    print("MANIFEST.json: %d checks, %d pending/not applicable" % (len(checks), len(na)))


if __name__ == "__main__":
    main()
