"""python3 -m vf.seedimport <worktree> <Cnn> : copy the confirmed seeded changes of a mutation worktree into /verif/seeded/<Cnn>-<i>/"""
import json, os, shutil, sys, re
wt, pid = sys.argv[1], sys.argv[2]
for i in sorted(os.listdir(os.path.join(wt, "MUTANTS"))):
    src = os.path.join(wt, "MUTANTS", i)
    if not os.path.isfile(os.path.join(src, "patch.diff")):
        continue
    ver = "/var/tmp/mutverify/%s-%s.txt" % (pid, i)
    vtxt = open(ver).read() if os.path.exists(ver) else ""
    ok = "demo_clean_exit=0" in vtxt and "demo_mutant_exit=0" not in vtxt and "demo_mutant_exit=" in vtxt and "pass=82" in vtxt and "PATCH_FAILED" not in vtxt
    if not ok:
        print("skip %s-%s: not confirmed (%s)" % (pid, i, " ".join(vtxt.split())[:200]))
        continue
    dst = "/verif/seeded/%s-%s" % (pid, i)
    shutil.rmtree(dst, ignore_errors=True)
    os.makedirs(dst)
    for root, dirs, files in os.walk(src):
        for f in files:
            p = os.path.join(root, f)
            rel = os.path.relpath(p, src)
            if os.path.getsize(p) > 150000 or rel.startswith("logs") or f.endswith(".log") or f.endswith(".o"):
                continue
            os.makedirs(os.path.dirname(os.path.join(dst, rel)) or dst, exist_ok=True)
            shutil.copy2(p, os.path.join(dst, rel))
    mt = ""
    for n in ("meta.txt", "README", "README.md", "meta.md"):
        if os.path.exists(os.path.join(src, n)):
            mt = open(os.path.join(src, n), errors="replace").read()
            break
    title = mt.strip().splitlines()[0] if mt.strip() else ""
    m = re.search(r"^Effect\s*:\s*(.*?)(?=^\S.*?:|\Z)", mt, re.S | re.M)
    needs = " ".join(m.group(1).split())[:900] if m else ""
    meta = {"id": "%s-%s" % (pid, i), "breaks_property": pid, "title": title,
            "needs_to_manifest": needs,
            "files_touched": sorted(set(re.findall(r"^\+\+\+ b/(\S+)", open(os.path.join(src, "patch.diff")).read(), re.M))),
            "confirmed_by": {"procedure": "vf/mutverify.sh in a scratch worktree: demo on the clean tree, apply patch, build, demo again, full project test suite",
                             "demo_clean_exit": 0, "demo_with_change_exit": 1, "project_tests_passing_with_change": 82,
                             "log": " ".join(vtxt.split())[:400]},
            "demo": "sh run.sh <built tree>  (exit 0 = property holds on that tree)",
            "caught_by": []}
    json.dump(meta, open(os.path.join(dst, "meta.json"), "w"), indent=1)
    print("imported", dst)
