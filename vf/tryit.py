"""quick experiment:  python3 -m vf.tryit '<module text>' PDU '<python value>' [syn...]
value is encoded by the reference DER encoder from a *parsed-back* model?  No: the
module is given as python building code via gen helpers is too heavy; instead
the value is given as DER hex (ref must be computed by the caller) or 'rnd'."""
import sys, os, shutil
from . import build, drv


def main():
    text, pdu, hexv = sys.argv[1], sys.argv[2], sys.argv[3]
    syns = sys.argv[4:] or ["DER", "OER", "UPER", "BXER", "CXER"]
    tc = build.toolchain()
    d = build.scratch_dir("try")
    open(d + "/m.asn1", "w").write(text)
    opts = tuple(os.environ.get("OPTS", "").split())
    exe, p = build.compile_module(tc, [d + "/m.asn1"], d + "/out", options=opts)
    if not exe:
        print(p.stderr.decode()[-2000:])
        return
    ops = ["dec s=0 t=%s syn=BER in=%s" % (pdu, hexv) if hexv != "rnd" else "rnd s=0 t=%s" % pdu, "enc s=0 syn=DER",
           "enc s=0 syn=TEXT"]
    for s in syns:
        ops += ["enc s=0 syn=%s reg=1" % s, "dec s=1 t=%s syn=%s inreg=1" % (pdu, s), "cmp a=0 b=1", "enc s=1 syn=DER",
                "free s=1"]
    res = drv.run_cases(exe, [drv.Case(1, ops)])
    r = res[1]
    print(r.status)
    for op, e in zip(ops, r.events):
        print(op[:60].ljust(60), {k: v for k, v in e.items() if k not in ("peak", "maxreq", "nalloc", "failtype", "calls", "bytes", "cbfailed", "mode")})
    if r.status != "ok":
        print(r.stderr[-2500:])
    build.cleanup_scratch()


main()
