"""python3 -m vf.covmap [Cnn ...] : line coverage of the skeletons and of the compiler libraries under the quick tier of the
given checks (default: all but C19), from --coverage builds of the current tree.  An experiment for finding code that no
check executes (where a change cannot be noticed); not part of any verdict.  Output: /var/tmp/covmap/summary.txt"""
import glob, os, re, shutil, subprocess, sys
from . import build

OUT = "/var/tmp/covmap"


def main():
    ids = sys.argv[1:] or ["C%02d" % i for i in range(1, 21) if i != 19]
    tc = build.toolchain()
    for d in ("obj-skel-cov", "obj-tools-cov"):
        for f in glob.glob(os.path.join(tc.root, d, "*.gcda")):
            os.unlink(f)
    shutil.rmtree(OUT, ignore_errors=True)
    os.makedirs(OUT + "/ev", exist_ok=True)
    env = dict(os.environ, VERIF_FORCE_VARIANT="cov", VERIF_FORCE_TOOL_VARIANT="cov", VERIF_EVIDENCE_DIR=OUT + "/ev",
               VERIF_KF_PATH=os.path.join(build.VERIF, "known_findings.json"))
    for c in ids:
        p = subprocess.run([os.path.join(build.VERIF, "check"), c, "quick"], env=env, stdout=subprocess.PIPE, stderr=subprocess.STDOUT)
        print(c, p.returncode, p.stdout.decode("latin-1").strip().split("\n")[-1][:160], flush=True)
    rows = []
    for d, srcdirs in (("obj-skel-cov", ["skeletons"]), ("obj-tools-cov", ["libasn1fix", "libasn1compiler", "libasn1parser", "libasn1print", "asn1-tools/unber", "asn1-tools/enber"])):
        od = os.path.join(tc.root, d)
        gd = os.path.join(OUT, d)
        os.makedirs(gd, exist_ok=True)
        for gcno in sorted(glob.glob(os.path.join(od, "*.gcno"))):
            p = subprocess.run(["gcov", "-f", "-o", od, gcno], cwd=gd, stdout=subprocess.PIPE, stderr=subprocess.DEVNULL)
            txt = p.stdout.decode("latin-1")
            cur = None
            for m in re.finditer(r"(Function|File) '([^']+)'\nLines executed:([\d.]+)% of (\d+)", txt):
                kind, name, pct, n = m.group(1), m.group(2), float(m.group(3)), int(m.group(4))
                if kind == "File" and not name.startswith("/usr"):
                    rows.append(("F", d, os.path.basename(name), pct, n))
                elif kind == "Function":
                    rows.append(("f", d, os.path.basename(gcno)[:-5] + ":" + name, pct, n))
    with open(os.path.join(OUT, "summary.txt"), "w") as f:
        for r in sorted(rows, key=lambda r: (r[0], r[1], r[3])):
            f.write("%s %-14s %-60s %6.1f%% of %d\n" % r)
    print("written", os.path.join(OUT, "summary.txt"))


if __name__ == "__main__":
    main()
