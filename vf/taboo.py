"""Feature ids of (type, value, syntax) cases, and the per-property taboo lists
derived from known_findings.json.

Every node of a (type, value) tree gets a coarse feature id
    <kind>/<constraint class>/<value class>@<syntax>
A known finding may name such an id ("fid"); cases containing a tabooed id are
run only as *targeted* cases (a minority), their violations carry the id and
are matched against the finding.  All other cases must be completely clean.
"""
import math, struct
from .asn import constraints as C
from .asn import model
from . import core


def _cclass(specs):
    """constraint class of a list of serial specs"""
    if not specs:
        return "none"
    tree, ext, add = specs[-1]
    k = tree[0]
    if k == "val":
        c = "single"
    elif k == "range":
        lo, hi = tree[1], tree[2]
        if lo == model.MIN and hi == model.MAX:
            c = "minmax"
        elif hi == model.MAX:
            c = "semi0" if lo == 0 else "semi"
        elif lo == model.MIN:
            c = "semiub"
        else:
            c = "range"
    else:
        c = k
    if len(specs) > 1:
        c = "serial-" + c
    if ext:
        c += "-ext"
    return c


def _width(lb, ub):
    if lb is None or ub is None:
        return ""
    r = ub - lb
    for b in (8, 16, 32, 64):
        if r < (1 << b):
            return "w%d" % b
    return "wbig"


def node_ids(mod, t, v, syn, out, depth=0):
    rt = mod.resolve(t)
    k = rt.kind
    if depth > 40:
        return
    if k == "INTEGER":
        specs = C.chain(mod, t, "value_c")
        cc = _cclass(specs)
        vc = "-"
        if specs:
            root, ext = C.general_set(specs)
            vc = "in" if root.contains(v) else "out"
            lb, ub = root.lb(), root.ub()
            if vc == "out" and v < 0 and lb is not None and lb >= 0 and (ub is None or ub > 2147483647):
                vc = "outnegu"      # asn1c keeps this type in an unsigned long: a negative extension value does not fit
            cc += _width(lb, ub)
            if lb is not None and lb < 0:
                cc += "-neg"
            if ub is not None and ub > (1 << 63) - 1:
                cc += "-u64"        # upper bound beyond LONG_MAX: does not fit the 'long' fields of asn_per_constraint_t
        big = "big" if not (-(1 << 63) <= v < (1 << 63)) else ("w64" if not (-(1 << 31) <= v < (1 << 31)) else "")
        out.add("INTEGER/%s/%s%s@%s" % (cc, vc, big, syn))
    elif k == "ENUMERATED":
        vc = "root" if any(val == v for n, val in rt.items) else "add"
        if vc == "add" and [val for n, val in rt.ext_items].index(v) >= 64:
            vc = "add+idx64"
        out.add("ENUMERATED/%s/%s@%s" % ("ext" if rt.ext_items is not None else "plain", vc, syn))
    elif k == "REAL":
        if v != v:
            vc = "nan"
        elif v in (math.inf, -math.inf):
            vc = "inf"
        elif v == 0:
            vc = "zero" if math.copysign(1, v) > 0 else "negzero"
        else:
            bits = struct.unpack(">Q", struct.pack(">d", v))[0]
            vc = "subnormal" if (bits >> 52) & 0x7ff == 0 else ("dec15" if float("%.15g" % v) == v else "full")
        out.add("REAL//%s@%s" % (vc, syn))
    elif k in model.STRING_KINDS:
        specs = C.chain(mod, t, "size_c")
        cc = _cclass(specs)
        if k == "BIT STRING":
            n = v[1]
            tz = "tz" if n and not (v[0][(n - 1) // 8] & (0x80 >> ((n - 1) % 8))) else ""
        else:
            n = len(v)
            tz = ""
        vc = "-"
        if specs:
            root, ext = C.general_set(specs, C.IntSet([(0, None)]))
            vc = "in" if root.contains(n) else "out"
        ln = "len0" if n == 0 else ("len64k" if n >= 65536 else ("len16k" if n >= 16384 else ""))
        al = ""
        if C.chain(mod, t, "alpha_c"):
            a, aext = C.alphabet(mod, t, k)
            al = "+alpha%s" % ("1" if a is not None and len(a) <= 1 else "")
        xs = ""
        if k in model.CHAR_KINDS and syn in ("BXER", "CXER"):
            if any(c in "<>&" for c in v):
                xs += "+xmlspecial"
            if any(ord(c) > 127 for c in v):
                xs += "+nonascii"
            if any(ord(c) < 32 for c in v):
                xs += "+ctrl"
        out.add("%s/%s%s/%s%s%s%s@%s" % (k, cc, al, vc, ln, tz, xs, syn))
    elif k in ("SEQUENCE", "SET"):
        used_add = rt.ext is not None and any(c.name in v for c in rt.ext)
        out.add("%s/%s%s/%s@%s" % (k, "ext" if rt.ext is not None else "plain", "" if rt.comps else "+emptyroot",
                                   "add" if used_add else "root", syn))
        for c in rt.all_comps():
            if c.name in v:
                node_ids(mod, c.type, v[c.name], syn, out, depth + 1)
    elif k == "CHOICE":
        alt, av = v
        c = [c for c in rt.all_comps() if c.name == alt][0]
        is_add = rt.ext is not None and c in rt.ext
        bigtag = ""
        if syn == "OER" and any(num >= 128 for cls, num in mod.outer_tags(c)):
            bigtag = "+tag128"
        out.add("CHOICE/%s%s/%s@%s" % ("ext" if rt.ext is not None else "plain", bigtag, "add" if is_add else "root", syn))
        node_ids(mod, c.type, av, syn, out, depth + 1)
    elif k in ("SEQUENCE OF", "SET OF"):
        specs = C.chain(mod, t, "size_c")
        cc = _cclass(specs)
        vc = "-"
        if specs:
            root, ext = C.general_set(specs, C.IntSet([(0, None)]))
            vc = "in" if root.contains(len(v)) else "out"
        ofof = ""
        if rt.elem.kind in ("SEQUENCE OF", "SET OF"):
            leaf = rt.elem.elem
            if leaf.kind != "REF" and (leaf.size_c or leaf.value_c or leaf.alpha_c):
                ofof = "+ofofc"     # X OF Y OF <constrained leaf>: asn1c's parser attaches the constraint to the middle level
        out.add("%s/%s/%s%s%s@%s" % (k, cc, vc, "+multi" if len(v) > 1 else "", ofof, syn))
        for e in v:
            node_ids(mod, rt.elem, e, syn, out, depth + 1)
    else:
        out.add("%s//@%s" % (k, syn))


def ids(mod, t, v, syn):
    out = set()
    node_ids(mod, t, v, syn, out)
    return out


def join(fl):
    fl = sorted(set(fl))
    return "|".join(fl) if fl else "none"


import re


class Taboo:
    """feature-id patterns (fid_re) named by the open known findings of one property"""

    def __init__(self, pid):
        self.res = []
        for f in core.load_findings():
            if f.get("property") == pid and f.get("status") == "open":
                for x in f.get("fid_re", []):
                    self.res.append(re.compile(x))
        self._cache = {}

    def hit(self, idset):
        out = []
        for i in idset:
            h = self._cache.get(i)
            if h is None:
                h = any(r.search(i) for r in self.res)
                self._cache[i] = h
            if h:
                out.append(i)
        return sorted(out)
