#!/bin/sh
# usage: mutverify.sh <worktree> <mutant dir> <tag>
# Confirms a seeded change: demo passes on the clean tree, patch applies, tree builds, the project's test
# suite still passes (82 stable tests), demo fails with the change.  Result -> /var/tmp/mutverify/<tag>.txt
wt=$1; md=$2; tag=$3; out=/var/tmp/mutverify/$tag.txt
{
echo "mutant $tag  $(date)"
/verif/vf/wtfix.sh $wt >/dev/null 2>&1; git -C $wt checkout -q -- . ; git -C $wt status --short | grep -v MUTANTS | head -3
( cd $wt && make -j4 >/dev/null 2>&1 )
( cd $md && sh ./run.sh $wt >/dev/null 2>&1 ); echo "demo_clean_exit=$?"
git -C $wt apply $md/patch.diff || echo "PATCH_FAILED"
( cd $wt && make -j4 >/dev/null 2>&1 ); echo "build_exit=$?"
( cd $md && sh ./run.sh $wt >/dev/null 2>&1 ); echo "demo_mutant_exit=$?"
( cd $wt && make -C skeletons check >/dev/null 2>&1; cd $wt && make -k -j4 check > /var/tmp/mutverify/$tag.check.log 2>&1 )
echo "pass=$(grep -c '^PASS' /var/tmp/mutverify/$tag.check.log) fail=$(grep '^FAIL' /var/tmp/mutverify/$tag.check.log | tr '\n' ' ')"
git -C $wt checkout -q -- .
( cd $wt && make -j4 >/dev/null 2>&1 )
echo "done $(date)"
} > $out 2>&1
