"""Check scaffolding: violations -> known-findings matching -> exit code,
replay files, evidence files."""
import json, os, re, sys, time, hashlib

VERIF = os.path.dirname(os.path.dirname(os.path.abspath(__file__)))
# VERIF_KF_PATH: triage aid only (run with a reduced list to see what a finding still covers)
KF_PATH = os.environ.get("VERIF_KF_PATH") or os.path.join(VERIF, "known_findings.json")
# VERIF_EVIDENCE_DIR: used only when a check is pointed at a scratch tree (seeded-change runs) so that the
# evidence of /repo is not overwritten
EVID_DIR = os.environ.get("VERIF_EVIDENCE_DIR") or os.path.join(VERIF, "evidence")
REPLAY_DIR = os.path.join(EVID_DIR, "replay")


def load_findings():
    try:
        with open(KF_PATH) as f:
            return json.load(f).get("findings", [])
    except FileNotFoundError:
        return []


def _field_match(want, got):
    if isinstance(want, list):
        return any(_field_match(w, got) for w in want)
    if isinstance(want, str) and want.startswith("re:"):
        return got is not None and re.search(want[3:], str(got)) is not None
    return str(want) == str(got)


class Check:
    def __init__(self, pid, tier, seed, level="exploration"):
        self.pid = pid
        self.tier = tier
        self.seed = seed
        self.level = level
        self.t0 = time.time()
        self.findings = [f for f in load_findings() if f.get("property") == pid and f.get("status") == "open"]
        self.kf_hits = {}
        self.violations = []
        self.evaluations = 0
        self.distinct = set()
        self.samples = []
        self.inconclusive = {}
        self.counters = {}
        self.extra = {}
        self.assumptions = []
        self.rule = ""
        self._vkeys = set()
        self.max_violation_reports = int(os.environ.get('VERIF_MAXREP', '25'))
        self.discover = os.environ.get("VERIF_DISCOVER")

    # ---- bookkeeping
    def count(self, name, n=1):
        self.counters[name] = self.counters.get(name, 0) + n

    def seen(self, key):
        """register a distinct non-trivial case key"""
        self.distinct.add(key)

    def sample(self, s, limit=6):
        if len(self.samples) < limit:
            self.samples.append(s)

    def inconcl(self, why, n=1):
        self.inconclusive[why] = self.inconclusive.get(why, 0) + n

    # ---- violations
    def violation(self, key, what, replay=None, disc=None):
        """key: dict of classification fields (matched against known findings);
        what: one-line human description; replay: json-able dict to reproduce."""
        if self.discover and disc is not None:
            with open(self.discover, "a") as f:
                f.write(json.dumps({"property": self.pid, "key": key, "what": what, "disc": disc,
                                    "replay": replay}, default=str) + "\n")
        for f in self.findings:
            m = f.get("match", {})
            if f.get("fid_re"):
                if not any(re.search(rx, i) for rx in f["fid_re"] for i in (key.get("fids") or [])):
                    continue
            if (m or f.get("fid_re")) and all(_field_match(v, key.get(k)) for k, v in m.items()):
                hit = self.kf_hits.setdefault(f["id"], {"count": 0, "what": f.get("what", ""), "example": what})
                hit["count"] += 1
                return "known"
        # de-duplicate identical classification keys
        kk = json.dumps(key, sort_keys=True, default=str)
        if kk in self._vkeys:
            self.count("violations_duplicate_key")
            return "dup"
        self._vkeys.add(kk)
        path = None
        if len(self.violations) < self.max_violation_reports:
            os.makedirs(REPLAY_DIR, exist_ok=True)
            h = hashlib.sha1(kk.encode()).hexdigest()[:10]
            path = os.path.join(REPLAY_DIR, "%s-%s-%s.json" % (self.pid, self.tier, h))
            with open(path, "w") as f:
                json.dump({"property": self.pid, "key": key, "what": what, "seed": self.seed,
                           "tier": self.tier, "replay": replay}, f, indent=1, default=str)
        self.violations.append({"key": key, "what": what, "replay": path})
        print("VIOLATION property=%s replay=%s  # %s" % (self.pid, path, " ".join(what.split())[:300]))
        sys.stdout.flush()
        return "new"

    # ---- finish
    def finish(self, exhaustive=False):
        for fid, h in sorted(self.kf_hits.items()):
            print("KNOWN-FINDING: property=%s %s %s (x%d)" % (self.pid, fid, " ".join(h["what"].split())[:400], h["count"]))
        cov = {
            "evaluations": int(self.evaluations),
            "distinct_nontrivial": len(self.distinct),
            "rule": self.rule,
            "samples": self.samples[:8] or ["(none)"],
            "counters": self.counters,
            "inconclusive": self.inconclusive,
            "known_findings_reproduced": {k: v["count"] for k, v in self.kf_hits.items()},
        }
        if exhaustive:
            cov["exhaustive"] = True
        cov.update(self.extra)
        ev = {
            "property_id": self.pid, "tier": self.tier, "seed": int(self.seed), "level": self.level,
            "coverage": cov, "assumptions": self.assumptions,
            "wall_s": round(time.time() - self.t0, 2), "violations": len(self.violations),
        }
        os.makedirs(EVID_DIR, exist_ok=True)
        with open(os.path.join(EVID_DIR, self.pid + ".json"), "w") as f:
            json.dump(ev, f, indent=1, default=str)
        harness_fail = self.evaluations == 0 or len(self.distinct) < 2
        print("%s %s seed=%d: evaluations=%d distinct=%d violations=%d known=%d inconclusive=%s wall=%.1fs" % (
            self.pid, self.tier, self.seed, self.evaluations, len(self.distinct), len(self.violations),
            sum(h["count"] for h in self.kf_hits.values()), dict(self.inconclusive), time.time() - self.t0))
        if self.violations:
            return 1
        if harness_fail:
            print("HARNESS: nothing explored")
            return 2
        return 0
