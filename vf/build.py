"""Build the asn1c toolchain and skeleton libraries from the *current* source
tree (VERIF_REPO, default /repo) with explicit gcc invocations.

Nothing from the in-tree autotools build is reused (except config.h when
present), so flag changes and source edits always take effect.  Artefacts are
cached under /var/tmp/asn1c-verif/cache/<treehash>/ and rebuilt from source
when absent; only a few tree hashes are kept.
"""
import hashlib, os, shutil, subprocess, sys, time, fcntl, glob
from concurrent.futures import ThreadPoolExecutor

REPO = os.environ.get("VERIF_REPO", "/repo")
VERIF = os.path.dirname(os.path.dirname(os.path.abspath(__file__)))
SCRATCH_ROOT = os.environ.get("VERIF_SCRATCH", "/var/tmp/asn1c-verif")
CACHE_ROOT = os.path.join(SCRATCH_ROOT, "cache")
JOBS = int(os.environ.get("VERIF_JOBS", "16"))
GUARD = "VLM_ASN1C_VERIF"

SRC_DIRS = ["libasn1common", "libasn1parser", "libasn1print", "libasn1fix",
            "libasn1compiler", "asn1c", "asn1-tools/unber", "asn1-tools/enber",
            "skeletons"]
HASH_EXT = (".c", ".h", ".y", ".l", ".pl", ".asn1")

VARIANTS = {
    # nonnull-attribute is left out: it only fires on zero-length memcmp/memcpy/fwrite calls with a
    # NULL pointer of an empty string (DESIGN.md Corrections #2)
    "asan": ["-O1", "-g", "-fsanitize=address,undefined", "-fno-sanitize=nonnull-attribute",
             "-fno-sanitize-recover=all", "-fno-omit-frame-pointer"],
    "plain": ["-O1", "-g", "-fno-omit-frame-pointer"],
    # no optimisation, no instrumentation: every load in the source is a load in the binary (used to confirm
    # null-pointer reports of the recovering UBSan build of the batch tools)
    "plain0": ["-O0", "-g"],
    "reach": ["-O0", "-g", "-finstrument-functions", "-fno-omit-frame-pointer"],
    "tsan": ["-O1", "-g", "-fsanitize=thread", "-fno-omit-frame-pointer"],
    "cov": ["-O0", "-g", "--coverage"],
}


class BuildError(Exception):
    pass


def run(cmd, cwd=None, check=True, env=None, timeout=None):
    p = subprocess.run(cmd, cwd=cwd, stdout=subprocess.PIPE,
                       stderr=subprocess.STDOUT, env=env, timeout=timeout)
    if check and p.returncode != 0:
        raise BuildError("command failed (%d): %s\n%s" % (
            p.returncode, " ".join(cmd), p.stdout.decode("utf-8", "replace")[-4000:]))
    return p


def tree_hash(repo=None):
    repo = repo or REPO
    h = hashlib.sha256()
    for d in SRC_DIRS:
        base = os.path.join(repo, d)
        for root, dirs, files in os.walk(base):
            dirs.sort()
            for f in sorted(files):
                if f.endswith(HASH_EXT) or f == "file-dependencies":
                    p = os.path.join(root, f)
                    # skip build droppings
                    if f.startswith("lex.yy") or f.startswith("y.tab"):
                        continue
                    try:
                        with open(p, "rb") as fh:
                            data = fh.read()
                    except OSError:
                        continue
                    h.update(os.path.relpath(p, repo).encode())
                    h.update(b"\0")
                    h.update(hashlib.sha256(data).digest())
    # the build recipe itself is an input
    with open(os.path.abspath(__file__), "rb") as fh:
        h.update(hashlib.sha256(fh.read()).digest())
    return h.hexdigest()[:20]


def _cc_many(jobs):
    """jobs: list of (cmd, cwd). Run in parallel, raise on first failure."""
    errs = []

    def one(j):
        try:
            run(j[0], cwd=j[1])
        except BuildError as e:
            errs.append(str(e))
    with ThreadPoolExecutor(JOBS) as ex:
        list(ex.map(one, jobs))
    if errs:
        raise BuildError(errs[0])


def _srcs(repo, d, exclude=()):
    out = []
    for f in sorted(os.listdir(os.path.join(repo, d))):
        if f.endswith(".c") and f not in exclude and not f.startswith("check"):
            out.append(os.path.join(repo, d, f))
    return out


def _config_h(repo, dst):
    src = os.path.join(repo, "config.h")
    if not os.path.exists(src) and os.path.exists("/repo/config.h"):
        src = "/repo/config.h"      # an unconfigured scratch worktree of the same project on the same machine
    if os.path.exists(src):
        shutil.copy(src, os.path.join(dst, "config.h"))
    else:
        with open(os.path.join(dst, "config.h"), "w") as f:
            f.write('#define PACKAGE "asn1c"\n#define VERSION "0.9.29"\n'
                    '#define PACKAGE_VERSION "0.9.29"\n#define HAVE_UNISTD_H 1\n'
                    '#define HAVE_SYS_STAT_H 1\n#define HAVE_SYS_TYPES_H 1\n'
                    '#define HAVE_STRTOIMAX 1\n#define HAVE_STRTOLL 1\n'
                    '#define HAVE_MKSTEMPS 1\n#define HAVE_ERRNO_H 1\n'
                    '#define HAVE_SYMLINK 1\n#define HAVE_GETOPT 1\n'
                    '#define HAVE_SYSEXITS_H 1\n#define HAVE_STRING_H 1\n'
                    '#define HAVE_STDLIB_H 1\n#define HAVE_STDINT_H 1\n'
                    '#define HAVE_INTTYPES_H 1\n#define HAVE_MEMORY_H 1\n'
                    '#define STDC_HEADERS 1\n#define HAVE_TIMEGM 1\n#define HAVE_STRINGS_H 1\n'
                    '#define HAVE_DECL_STRCASECMP 1\n#define HAVE_DECL_VASPRINTF 0\n#define SIZEOF_VOID_P 8\n'
                    '#ifdef __SIZEOF_INT128__\n#define HAVE_128_BIT_INT 1\n#endif\n')


def _build_tools(repo, out, variant):
    """asn1c, unber, enber for one variant into out/bin/<name>.<variant>"""
    flags = VARIANTS[variant] + ["-std=gnu99", "-w", "-D" + GUARD, "-DHAVE_CONFIG_H"]
    if variant == "asan":
        # The batch tools: ASan fatal, UBSan *recovering* (reports are collected
        # by the monitors as observations; see DESIGN.md Corrections #1).
        flags = [f for f in flags if f != "-fno-sanitize-recover=all"] + ["-fno-sanitize-recover=address"]
    obj = os.path.join(out, "obj-tools-" + variant)
    os.makedirs(obj, exist_ok=True)
    gen = os.path.join(out, "gen")
    if not os.path.exists(os.path.join(gen, "asn1p_y.c")):
        os.makedirs(gen, exist_ok=True)
        _config_h(repo, gen)
        pdir = os.path.join(repo, "libasn1parser")
        # The tracked asn1p_y.c / asn1p_l.c are used as they are: the grammar
        # needs bison 2.x (YYPARSE_PARAM), the installed bison 3.8 cannot
        # regenerate it (tried), and the project build uses the tracked files.
        for f in ("asn1p_y.c", "asn1p_y.h", "asn1p_l.c"):
            shutil.copy(os.path.join(pdir, f), os.path.join(gen, f))
        # asn1p_expr_str.h
        try:
            p = run(["perl", os.path.join(pdir, "expr-h.pl"), os.path.join(pdir, "asn1p_expr.h")])
            with open(os.path.join(gen, "asn1p_expr_str.h"), "wb") as f:
                f.write(p.stdout)
        except (BuildError, FileNotFoundError):
            shutil.copy(os.path.join(pdir, "asn1p_expr_str.h"), gen)
    inc = ["-I" + gen] + ["-I" + os.path.join(repo, d) for d in
                          ["libasn1common", "libasn1parser", "libasn1print",
                           "libasn1fix", "libasn1compiler", "skeletons",
                           "asn1-tools/unber"]]
    common = []
    for d in ["libasn1common", "libasn1print", "libasn1fix", "libasn1compiler"]:
        common += _srcs(repo, d)
    common += _srcs(repo, "libasn1parser", exclude=("asn1p_y.c", "asn1p_l.c"))
    common += [os.path.join(gen, "asn1p_y.c"), os.path.join(gen, "asn1p_l.c")]
    jobs = []
    objs = []
    for s in common:
        o = os.path.join(obj, os.path.basename(s)[:-2] + ".o")
        objs.append(o)
        jobs.append((["gcc"] + flags + inc + ["-c", s, "-o", o], None))
    extra = {
        "asn1c": [os.path.join(repo, "asn1c/asn1c.c")],
        "unber": [os.path.join(repo, "asn1-tools/unber/unber.c"),
                  os.path.join(repo, "asn1-tools/unber/libasn1_unber_tool.c")],
        "enber": [os.path.join(repo, "asn1-tools/enber/enber.c")],
    }
    xobjs = {}
    for name, ss in extra.items():
        xobjs[name] = []
        for s in ss:
            o = os.path.join(obj, name + "-" + os.path.basename(s)[:-2] + ".o")
            xobjs[name].append(o)
            jobs.append((["gcc"] + flags + inc +
                         ['-DDATADIR="%s"' % os.path.join(repo, "skeletons"),
                          "-c", s, "-o", o], None))
    _cc_many(jobs)
    os.makedirs(os.path.join(out, "bin"), exist_ok=True)
    link = []
    for name in extra:
        dst = os.path.join(out, "bin", "%s.%s" % (name, variant))
        lobjs = objs if name == "asn1c" else [o for o, s_ in zip(objs, common)
                                              if "/libasn1common/" in s_]
        link.append((["gcc"] + flags + xobjs[name] + lobjs + ["-o", dst, "-lm"], None))
    _cc_many(link)
    if variant != "cov":
        shutil.rmtree(obj, ignore_errors=True)


SKEL_EXCLUDE = ("converter-example.c",)


def skeleton_sources(repo=None):
    repo = repo or REPO
    return [s for s in _srcs(repo, "skeletons", exclude=SKEL_EXCLUDE)]


def _build_skel(repo, out, variant, defs=()):
    flags = VARIANTS[variant] + ["-std=gnu99", "-w", "-D" + GUARD,
                                 "-DASN_PDU_COLLECTION"] + list(defs)
    tag = variant + ("".join("_" + d.replace("-D", "").replace("=", "") for d in defs))
    obj = os.path.join(out, "obj-skel-" + tag)
    os.makedirs(obj, exist_ok=True)
    jobs, objs = [], []
    for s in skeleton_sources(repo):
        o = os.path.join(obj, os.path.basename(s)[:-2] + ".o")
        objs.append(o)
        jobs.append((["gcc"] + flags + ["-I" + os.path.join(repo, "skeletons"),
                                        "-c", s, "-o", o], None))
    _cc_many(jobs)
    lib = os.path.join(out, "libskel.%s.a" % tag)
    if os.path.exists(lib):
        os.unlink(lib)
    run(["ar", "rcs", lib] + objs)
    if variant != "cov":
        shutil.rmtree(obj, ignore_errors=True)
    return lib


class Toolchain:
    def __init__(self, root, repo):
        self.root = root
        self.repo = repo

    def tool(self, name, variant="asan"):
        variant = os.environ.get("VERIF_FORCE_TOOL_VARIANT") or variant     # coverage experiments only (vf/covmap.py)
        p = os.path.join(self.root, "bin", "%s.%s" % (name, variant))
        if not os.path.exists(p):
            with _lock(self.root):
                if not os.path.exists(p):
                    _build_tools(self.repo, self.root, variant)
        return p

    def skel(self, variant="asan", defs=()):
        tag = variant + ("".join("_" + d.replace("-D", "").replace("=", "") for d in defs))
        p = os.path.join(self.root, "libskel.%s.a" % tag)
        if not os.path.exists(p):
            with _lock(self.root):
                if not os.path.exists(p):
                    _build_skel(self.repo, self.root, variant, defs)
        return p

    def driver_obj(self, name, variant="asan", extra_flags=()):
        """compile /verif/vf/driver/<name>.c for the variant -> .o path"""
        src = os.path.join(VERIF, "vf", "driver", name + ".c")
        with open(src, "rb") as f:
            hh = hashlib.sha256(f.read() + " ".join(extra_flags).encode()).hexdigest()[:12]
        o = os.path.join(self.root, "%s.%s.%s.o" % (name, variant, hh))
        if not os.path.exists(o):
            with _lock(self.root):
                if not os.path.exists(o):
                    flags = list(VARIANTS[variant])
                    if variant == "reach":
                        flags = [f for f in flags if f != "-finstrument-functions"]
                    tmp = o + ".tmp%d" % os.getpid()
                    run(["gcc"] + flags + ["-std=gnu99", "-Wall", "-Wno-unused-function",
                                           "-D" + GUARD, "-DASN_PDU_COLLECTION",
                                           "-I" + os.path.join(self.repo, "skeletons")]
                        + list(extra_flags) + ["-c", src, "-o", tmp])
                    os.rename(tmp, o)
        return o


class _lock:
    def __init__(self, root):
        self.path = os.path.join(root, ".lock")

    def __enter__(self):
        self.fd = open(self.path, "w")
        fcntl.flock(self.fd, fcntl.LOCK_EX)

    def __exit__(self, *a):
        fcntl.flock(self.fd, fcntl.LOCK_UN)
        self.fd.close()


def _prune_cache(keep):
    try:
        ents = [os.path.join(CACHE_ROOT, e) for e in os.listdir(CACHE_ROOT)]
    except OSError:
        return
    ents = [e for e in ents if os.path.isdir(e) and os.path.basename(e) != keep]
    ents.sort(key=lambda e: os.path.getmtime(e), reverse=True)
    # another check may be running from a build of another tree (a scratch tree with a seeded change next to /repo): only
    # builds nobody has asked for in the last six hours are dropped, and the three most recent others always stay
    now = time.time()
    for i, e in enumerate(ents[3:]):
        try:
            if now - os.path.getmtime(e) > 6 * 3600 or i >= 40:
                shutil.rmtree(e, ignore_errors=True)
        except OSError:
            pass


_tc = None


def toolchain(repo=None):
    """Return the Toolchain for the current content of the tree."""
    global _tc
    repo = repo or REPO
    if _tc is not None and _tc.repo == repo:
        return _tc
    h = tree_hash(repo)
    root = os.path.join(CACHE_ROOT, h)
    os.makedirs(root, exist_ok=True)
    os.utime(root, None)
    _prune_cache(h)
    _tc = Toolchain(root, repo)
    return _tc


_scratch = []


def scratch_dir(tag="run"):
    d = os.path.join(SCRATCH_ROOT, "%s.%d.%d" % (tag, os.getpid(), len(_scratch)))
    shutil.rmtree(d, ignore_errors=True)
    os.makedirs(d, exist_ok=True)
    _scratch.append(d)
    return d


def cleanup_scratch():
    if os.environ.get("VERIF_KEEP"):
        return
    while _scratch:
        shutil.rmtree(_scratch.pop(), ignore_errors=True)


SAN_ENV = {
    "ASAN_OPTIONS": "abort_on_error=1:detect_leaks=0:allocator_may_return_null=1:"
                    "detect_stack_use_after_return=0:handle_abort=1:max_allocation_size_mb=3000",
    "UBSAN_OPTIONS": "halt_on_error=1:print_stacktrace=1",
    "TZ": "UTC", "LC_ALL": "C",
}


def san_env(extra=None):
    e = dict(os.environ)
    e.update(SAN_ENV)
    if extra:
        e.update(extra)
    return e


def tool_env(extra=None):
    """environment for the batch tools (asn1c/unber/enber): UBSan recovering."""
    e = san_env(extra)
    e["UBSAN_OPTIONS"] = "halt_on_error=0:print_stacktrace=0"
    return e


def compile_module(tc, asn_paths, outdir, options=(), variant="asan", driver="vdriver",
                   wrap_alloc=True, asn1c_variant="asan", extra_objs=(), own_skeletons=False,
                   skel_defs=(), cflags=()):
    """Run asn1c on the module(s), compile emitted type files and link with
    driver + prebuilt skeleton lib. Returns (exe_path, asn1c_result)."""
    os.makedirs(outdir, exist_ok=True)
    if variant == "asan" and os.environ.get("VERIF_FORCE_VARIANT"):
        variant = os.environ["VERIF_FORCE_VARIANT"]                         # coverage experiments only (vf/covmap.py)
    a = tc.tool("asn1c", asn1c_variant)
    cmd = [a, "-S", os.path.join(tc.repo, "skeletons"), "-pdu=all"] + list(options) + \
          ["-D", outdir] + list(asn_paths)
    p = subprocess.run(cmd, stdout=subprocess.PIPE, stderr=subprocess.PIPE, env=tool_env(),
                       timeout=300)
    if p.returncode != 0:
        return None, p
    skel_names = set(os.listdir(os.path.join(tc.repo, "skeletons")))
    srcs = [f for f in sorted(os.listdir(outdir)) if f.endswith(".c")
            and f not in skel_names]
    flags = VARIANTS[variant] + ["-std=gnu99", "-w", "-D" + GUARD, "-DASN_PDU_COLLECTION"] \
        + list(skel_defs) + list(cflags)
    if "-no-gen-OER" in options:
        flags.append("-DASN_DISABLE_OER_SUPPORT")
    if "-no-gen-PER" in options:
        flags.append("-DASN_DISABLE_PER_SUPPORT")
    inc = ["-I" + outdir] if own_skeletons else ["-I" + os.path.join(tc.repo, "skeletons"), "-I" + outdir]
    # generated headers must win over nothing: skeleton headers come from repo
    jobs, objs = [], []
    for s in srcs:
        o = os.path.join(outdir, s[:-2] + ".o")
        objs.append(o)
        jobs.append((["gcc"] + flags + ["-I" + os.path.join(tc.repo, "skeletons"), "-I" + outdir,
                                        "-c", os.path.join(outdir, s), "-o", o], None))
    _cc_many(jobs)
    exe = os.path.join(outdir, "drv")
    link = ["gcc"] + VARIANTS[variant] + objs + [tc.driver_obj(driver, variant)] + list(extra_objs)
    if wrap_alloc:
        link += [tc.driver_obj("ledger", variant),
                 "-Wl,--wrap=malloc,--wrap=calloc,--wrap=realloc,--wrap=free"]
    link += [tc.skel(variant, skel_defs), "-o", exe, "-lm", "-lpthread"]
    link += ["-no-pie"]
    run(link)
    return exe, p


if __name__ == "__main__":
    t0 = time.time()
    tc = toolchain()
    print("tree", tc.root)
    for v in sys.argv[1:] or ["asan"]:
        print(tc.tool("asn1c", v))
        print(tc.skel(v))
    print("%.1fs" % (time.time() - t0))
