"""Reference DER encoder (X.690) producing a TLV tree, plus the BER variant
serialiser (length forms, indefinite, constructed strings, SET order ...)."""
import math, struct
from .model import CLS_BITS, UNIVERSAL_TAG, STRING_KINDS, CHAR_KINDS


class Unsupported(Exception):
    pass


class Node:
    __slots__ = ("cls", "num", "constructed", "content", "children", "is_string", "bits_unused",
                 "is_set", "is_setof", "unknown_ext", "kind", "wrapper")

    def __init__(self, cls, num, constructed, content=None, children=None, is_string=False):
        self.cls = cls
        self.num = num
        self.constructed = constructed
        self.content = content
        self.children = children
        self.is_string = is_string
        self.bits_unused = None     # for BIT STRING: content[0]
        self.is_set = False
        self.is_setof = False
        self.unknown_ext = False
        self.kind = None            # ASN.1 kind of the node (strings)
        self.wrapper = False        # an EXPLICIT-tag wrapper around the node of the same type


def enc_tag(cls, num, constructed):
    b0 = (CLS_BITS[cls] << 6) | (0x20 if constructed else 0)
    if num <= 30:
        return bytes([b0 | num])
    out = [num & 0x7f]
    num >>= 7
    while num:
        out.append(0x80 | (num & 0x7f))
        num >>= 7
    return bytes([b0 | 31]) + bytes(reversed(out))


def enc_len(n, extra_zeros=0, force_long=False):
    if n < 128 and not extra_zeros and not force_long:
        return bytes([n])
    body = n.to_bytes(max(1, (n.bit_length() + 7) // 8), "big")
    body = b"\0" * extra_zeros + body
    return bytes([0x80 | len(body)]) + body


def int_octets(v):
    n = 1
    while not (-(1 << (8 * n - 1)) <= v < (1 << (8 * n - 1))):
        n += 1
    return v.to_bytes(n, "big", signed=True)


def oid_octets(arcs, relative=False):
    out = bytearray()
    arcs = list(arcs)
    if not relative:
        arcs = [arcs[0] * 40 + arcs[1]] + arcs[2:]
    for a in arcs:
        chunk = [a & 0x7f]
        a >>= 7
        while a:
            chunk.append(0x80 | (a & 0x7f))
            a >>= 7
        out += bytes(reversed(chunk))
    return bytes(out)


def real_octets(d):
    """X.690 8.5 / 11.3 DER contents for a double"""
    if d != d:
        return b"\x42"
    if d == 0:
        if math.copysign(1.0, d) < 0:
            return b"\x43"
        return b""
    if d == math.inf:
        return b"\x40"
    if d == -math.inf:
        return b"\x41"
    bits = struct.unpack(">Q", struct.pack(">d", d))[0]
    sign = bits >> 63
    e = (bits >> 52) & 0x7ff
    m = bits & ((1 << 52) - 1)
    if e == 0:
        exp = -1074
    else:
        m |= 1 << 52
        exp = e - 1075
    while m & 1 == 0:
        m >>= 1
        exp += 1
    eo = int_octets(exp)
    mo = m.to_bytes((m.bit_length() + 7) // 8, "big")
    if len(eo) <= 3:
        first = 0x80 | (sign << 6) | (len(eo) - 1)
        return bytes([first]) + eo + mo
    first = 0x80 | (sign << 6) | 3
    return bytes([first, len(eo)]) + eo + mo


_REAL_LEN_CYCLE = [0]


def real_variant(d, rng):
    """another valid BER contents octet string (X.690 8.5) of the same double, or None: binary with an even mantissa, a longer
    exponent field, a scaling factor, base 8 or 16; or an ISO 6093 NR1/NR2/NR3 decimal form (the shortest digits that
    round-trip to d), padded with leading spaces/zeros to a total length that cycles through 2..40"""
    if d != d or d in (math.inf, -math.inf) or d == 0:
        return None
    bits = struct.unpack(">Q", struct.pack(">d", d))[0]
    sign = bits >> 63
    e = (bits >> 52) & 0x7ff
    m = bits & ((1 << 52) - 1)
    if e == 0:
        exp = -1074
    else:
        m |= 1 << 52
        exp = e - 1075
    while m & 1 == 0:
        m >>= 1
        exp += 1

    def binary(base_bits, F, E, N, elen=None, counted=False):
        eo = int_octets(E)
        if elen is not None and elen > len(eo):
            # 8.5.6.4 a)-c): one, two or three exponent octets, no minimality rule (d) has one: see 'counted')
            eo = (b"\xff" if E < 0 else b"\x00") * (elen - len(eo)) + eo
        mo = N.to_bytes(max(1, (N.bit_length() + 7) // 8), "big")
        bb = {1: 0, 3: 1, 4: 2}[base_bits]
        if len(eo) <= 3 and not counted:
            return bytes([0x80 | (sign << 6) | (bb << 4) | (F << 2) | (len(eo) - 1)]) + eo + mo
        return bytes([0x80 | (sign << 6) | (bb << 4) | (F << 2) | 3, len(eo)]) + eo + mo
    form = rng.choice(["even", "explen", "counted", "scale", "base8", "base16", "dec", "dec", "dec"])
    if form == "even":
        k = rng.randrange(1, 9)
        return binary(1, 0, exp - k, m << k)
    if form == "explen":
        return binary(1, 0, exp, m, elen=rng.choice([2, 3]))
    if form == "counted":
        # 8.5.6.4 d): exponent length in an octet of its own; the exponent itself must then be minimal
        return binary(1, 0, exp, m, counted=True)
    if form == "scale":
        F = rng.randrange(1, 4)
        return binary(1, F, exp - F, m)
    if form in ("base8", "base16"):
        bbits = 3 if form == "base8" else 4
        E = exp // bbits
        return binary(bbits, exp - bbits * E, E, m)
    r = repr(abs(d))
    if "e" in r:
        mant, ex = r.split("e")
        ex = int(ex)
    else:
        mant, ex = r, 0
    ip, _, fp = mant.partition(".")
    if fp == "0":
        fp = ""
    digits = (ip + fp).lstrip("0") or "0"
    ex10 = ex - len(fp)
    sg = "-" if sign else rng.choice(["", "", "+"])
    nr = rng.choice([1, 2, 3])
    if nr == 1 and not (ex10 >= 0 and len(digits) + ex10 <= 30):
        nr = 3
    if nr == 2 and not (-30 <= ex10 <= 0 or (ex10 > 0 and len(digits) + ex10 <= 30)):
        nr = 3
    if nr == 1:
        body = digits + "0" * ex10
    elif nr == 2:
        if ex10 >= 0:
            body = digits + "0" * ex10 + "." + rng.choice(["", "0", "00"])
        else:
            w = digits.rjust(-ex10 + 1, "0")
            body = w[:ex10] + "." + w[ex10:]
    else:
        body = digits + ".E" + rng.choice(["", "+"] if ex10 >= 0 else [""]) + str(ex10)
    _REAL_LEN_CYCLE[0] = (_REAL_LEN_CYCLE[0] + 1) % 39
    want = 2 + _REAL_LEN_CYCLE[0]
    pad = max(0, want - 1 - len(sg) - len(body))
    nsp = rng.randrange(0, pad + 1)
    txt = " " * nsp + sg + "0" * (pad - nsp) + body
    return bytes([nr]) + txt.encode()


def string_octets(kind, v):
    if kind in ("OCTET STRING",):
        return bytes(v)
    if kind == "UTF8String":
        return v.encode("utf-8", "surrogatepass")
    if kind == "BMPString":
        return b"".join(struct.pack(">H", ord(c)) for c in v)
    if kind == "UniversalString":
        return b"".join(struct.pack(">I", ord(c)) for c in v)
    if kind in ("UTCTime", "GeneralizedTime"):
        return v.encode("ascii")
    return v.encode("latin-1")


TIME_FORMS = ["zeros", "comma", "offset", "no-seconds", "no-minutes"]


def time_variant(kind, v, rng, form=None):
    """another BER-legal way of writing the same instant as the DER form v ('...Z'): trailing zeros in the fraction, a comma
    as decimal sign, a local time with an offset (X.680 46, 47; excluded by X.690 11.7 / 11.8 for DER only)"""
    import datetime
    if not v.endswith("Z"):
        return v
    body = v[:-1]
    frac = ""
    for sep in (".", ","):
        if sep in body:
            body, frac = body.split(sep, 1)
    form = form or rng.choice(["zeros", "comma", "offset", "offset", "no-seconds", "no-minutes"])
    gen = kind == "GeneralizedTime"
    if form == "no-minutes" and gen and not frac and body.endswith("0000") and len(body) == 14:
        return body[:-4] + "Z"
    if form == "zeros" and gen:
        return body + "." + (frac or "0") + "0" * rng.choice([0, 1, 3]) + "Z" if (frac or rng.random() < 0.5) else v
    if form == "comma" and gen and frac:
        return body + "," + frac + "Z"
    if form == "no-seconds" and not frac and body.endswith("00") and len(body) == (14 if gen else 12):
        return body[:-2] + "Z"
    if form == "offset" and len(body) == (14 if gen else 12):
        try:
            if gen:
                dt = datetime.datetime.strptime(body, "%Y%m%d%H%M%S")
            else:
                yy = int(body[:2])
                dt = datetime.datetime.strptime(("19" if yy >= 50 else "20") + body, "%Y%m%d%H%M%S")
            off = rng.choice([60, -60, 330, -480, 754, 1, -1])
            lt = dt + datetime.timedelta(minutes=off)
            if lt.year != dt.year or not (1 <= lt.year <= 9999):
                return v
            txt = lt.strftime("%Y%m%d%H%M%S") if gen else lt.strftime("%y%m%d%H%M%S")
            if gen and frac:
                txt += "." + frac
            return txt + ("+" if off >= 0 else "-") + "%02d%02d" % (abs(off) // 60, abs(off) % 60)
        except ValueError:
            return v
    return v


class Encoder:
    def __init__(self, mod, emit_defaults=False, shuffle=None, true_octet=0xff, unknown_ext=None, time_forms=None, real_forms=None):
        self.mod = mod
        self.real_forms = real_forms            # rng: REAL in another valid BER form (X.690 8.5) of the same number
        self.time_forms = time_forms            # rng: GeneralizedTime / UTCTime in a non-DER notation of the same instant
        self.time_kinds = ("UTCTime", "GeneralizedTime")
        self.emit_defaults = emit_defaults      # BER: DEFAULT-equal components may be present
        self.shuffle = shuffle                  # rng: SET components / SET OF elements in any order
        self.true_octet = true_octet            # BER: any non-zero octet means TRUE
        self.unknown_ext = unknown_ext          # rng: add unknown extension additions to extensible SEQUENCE/SET
        self.used = set()

    # -- public
    def encode(self, t, v):
        return serialize(self.tree(t, v))

    def tree(self, t, v, chain=None):
        """TLV tree of value v of type t (with t's full tag chain, or an overriding chain)"""
        mod = self.mod
        if chain is None:
            chain = mod.tag_chain(t)
        rt = mod.resolve(t)
        if rt.kind == "CHOICE":
            alt, av = v
            c = [c for c in rt.all_comps() if c.name == alt][0]
            inner = self.tree(c.type, av, mod.comp_chain(c))
            for cls, num in reversed(chain):
                inner = Node(cls, num, True, children=[inner])
                inner.wrapper = True
            return inner
        node = self.base_node(rt, v, chain[-1])
        node.kind = rt.kind
        for cls, num in reversed(chain[:-1]):
            node = Node(cls, num, True, children=[node])
            node.wrapper = True
        return node

    def base_node(self, rt, v, tag):
        cls, num = tag
        k = rt.kind
        if k == "BOOLEAN":
            if v and self.true_octet != 0xff:
                self.used.add("true-not-ff")
            return Node(cls, num, False, bytes([self.true_octet]) if v else b"\x00")
        if k in ("INTEGER", "ENUMERATED"):
            return Node(cls, num, False, int_octets(v))
        if k == "NULL":
            return Node(cls, num, False, b"")
        if k == "REAL":
            if self.real_forms is not None and self.real_forms.random() < 0.8:
                alt = real_variant(v, self.real_forms)
                if alt is not None:
                    self.used.add("realform")
                    return Node(cls, num, False, alt)
            return Node(cls, num, False, real_octets(v))
        if k == "OBJECT IDENTIFIER":
            return Node(cls, num, False, oid_octets(v))
        if k == "RELATIVE-OID":
            return Node(cls, num, False, oid_octets(v, True))
        if k == "BIT STRING":
            data, nbits = v
            nbytes = (nbits + 7) // 8
            unused = nbytes * 8 - nbits
            body = bytearray(data[:nbytes])
            if unused and body:
                body[-1] &= (0xff << unused) & 0xff
            n = Node(cls, num, False, bytes([unused]) + bytes(body), is_string=True)
            n.bits_unused = unused
            return n
        if k in STRING_KINDS:
            if self.time_forms is not None and k in self.time_kinds:
                v2 = time_variant(k, v, self.time_forms)
                if v2 != v:
                    self.used.add("time-form")
                    v = v2
            return Node(cls, num, False, string_octets(k, v), is_string=True)
        if k in ("SEQUENCE", "SET"):
            children = []
            ext_pos = None
            for c in rt.all_comps_textual():
                if rt.comps2 is not None and c is rt.comps2[0]:
                    ext_pos = len(children)
                if c.name not in v:
                    if c.has_default and self.emit_defaults and self.mod.resolve(c.type).kind in ("BOOLEAN", "INTEGER", "ENUMERATED"):
                        children.append(self.tree(c.type, c.default, self.mod.comp_chain(c)))
                        self.used.add("default-present")
                    continue
                if c.has_default and values_equal(v[c.name], c.default):
                    if not self.emit_defaults:
                        continue
                    self.used.add("default-present")
                children.append(self.tree(c.type, v[c.name], self.mod.comp_chain(c)))
            if ext_pos is None:
                ext_pos = len(children)
            if self.unknown_ext is not None and rt.ext is not None and self.unknown_ext.random() < 0.7:
                rng = self.unknown_ext
                for i in range(rng.choice([1, 1, 2])):
                    children.insert(ext_pos + i, _unknown_tlv(rng, 9000 + i))
                self.used.add("unknown-ext")
            n = Node(cls, num, True, children=children)
            if k == "SET":
                n.is_set = True
                if self.shuffle is not None and len(n.children) > 1:
                    self.shuffle.shuffle(n.children)
                    self.used.add("set-order")
                else:
                    n.children.sort(key=lambda ch: (CLS_BITS[ch.cls], ch.num))
            return n
        if k in ("SEQUENCE OF", "SET OF"):
            children = [self.tree(rt.elem, e) for e in v]
            n = Node(cls, num, True, children=children)
            if k == "SET OF":
                n.is_setof = True
                if self.shuffle is not None and len(n.children) > 1:
                    self.shuffle.shuffle(n.children)
                    self.used.add("setof-order")
                elif (self.real_forms is not None or self.time_forms is not None) and len(children) > 1:
                    # only the notation of the elements is meant to differ: they stay in the order of their DER encodings
                    # (the order in which elements are received is a finding of its own under OER, see 'setof-order')
                    canon = Encoder(self.mod)
                    keys = [serialize(canon.tree(rt.elem, e)) for e in v]
                    n.children = [ch for _, _, ch in sorted(zip(keys, range(len(children)), children), key=lambda x: (x[0], x[1]))]
                else:
                    n.children.sort(key=lambda ch: serialize(ch))
            return n
        raise Unsupported(k)


def _unknown_tlv(rng, num, depth=0):
    """an extension addition the receiver does not know: private-class tag, primitive or constructed"""
    if depth < 2 and rng.random() < 0.4:
        kids = [_unknown_tlv(rng, rng.randrange(0, 40), depth + 1) for _ in range(rng.choice([0, 1, 2]))]
        n = Node("P", num, True, children=kids)
    else:
        n = Node("P", num, False, bytes(rng.getrandbits(8) for _ in range(rng.choice([0, 1, 3, 200]))))
    n.unknown_ext = True
    return n


def values_equal(a, b):
    if isinstance(a, float) and isinstance(b, float):
        return struct.pack(">d", a) == struct.pack(">d", b) or (a != a and b != b)
    return a == b


# textual order of components incl. extension additions in their textual place
def _all_comps_textual(self):
    return list(self.comps or []) + list(self.ext or []) + list(self.comps2 or [])


from .model import Type as _T
_T.all_comps_textual = _all_comps_textual


def serialize(node, opts=None):
    """opts: callable(node, depth) -> dict(indef=bool, lenzeros=int, split=list|None, boolval=int)"""
    return _ser(node, opts, 0)


def _ser(node, opts, depth):
    o = opts(node, depth) if opts else {}
    if node.constructed:
        body = b"".join(_ser(ch, opts, depth + 1) for ch in node.children)
        hdr = enc_tag(node.cls, node.num, True)
        if o.get("indef"):
            return hdr + b"\x80" + body + b"\0\0"
        return hdr + enc_len(len(body), o.get("lenzeros", 0)) + body
    content = node.content
    if node.is_string and o.get("split"):
        # constructed string: segments as universal OCTET STRING / BIT STRING primitives
        return _ser_constructed_string(node, o, opts, depth)
    return enc_tag(node.cls, node.num, False) + enc_len(len(content), o.get("lenzeros", 0)) + content


def _ser_constructed_string(node, o, opts, depth):
    split = o["split"]          # list of cut positions or nested structure
    is_bits = node.bits_unused is not None
    segtag = 3 if is_bits else 4
    data = node.content[1:] if is_bits else node.content
    unused = node.bits_unused if is_bits else 0
    body = _segments(data, unused, is_bits, segtag, split, o.get("seg_indef", False), o.get("nest", 0))
    hdr = enc_tag(node.cls, node.num, True)
    if o.get("indef"):
        return hdr + b"\x80" + body + b"\0\0"
    return hdr + enc_len(len(body), o.get("lenzeros", 0)) + body


def _segments(data, unused, is_bits, segtag, cuts, seg_indef, nest):
    cuts = sorted(set(c for c in cuts if 0 <= c <= len(data)))
    pieces = []
    prev = 0
    for c in cuts + [len(data)]:
        pieces.append(data[prev:c])
        prev = c
    # X.690 8.6.4: every BIT STRING segment but the last is a multiple of 8 bits (unused=0)
    out = b""
    for i, p in enumerate(pieces):
        last = i == len(pieces) - 1
        if is_bits:
            content = bytes([unused if last else 0]) + p
        else:
            content = p
        if nest > 0 and i == 0 and len(pieces) > 1:
            # nest the first piece one level deeper as a constructed segment
            inner = _segments(p, 0, is_bits, segtag, [len(p) // 2] if len(p) > 1 else [], False, nest - 1)
            if seg_indef:
                out += enc_tag("U", segtag, True) + b"\x80" + inner + b"\0\0"
            else:
                out += enc_tag("U", segtag, True) + enc_len(len(inner)) + inner
        else:
            out += enc_tag("U", segtag, False) + enc_len(len(content)) + content
    return out


# ---------------------------------------------------------------------------
# independent TLV parser (used by C20 and for sanity)
class TLVError(Exception):
    pass


def parse_tlv(buf, off=0, end=None, depth=0):
    """-> (dict(off, cls, num, constructed, hdrlen, length(-1 indef), children|None, total), next_off)"""
    end = len(buf) if end is None else end
    if off >= end:
        raise TLVError("eof")
    start = off
    b0 = buf[off]
    off += 1
    cls = "UACP"[b0 >> 6]
    constructed = bool(b0 & 0x20)
    num = b0 & 0x1f
    if num == 31:
        num = 0
        while True:
            if off >= end:
                raise TLVError("eof in tag")
            b = buf[off]
            off += 1
            num = (num << 7) | (b & 0x7f)
            if not b & 0x80:
                break
    if off >= end:
        raise TLVError("eof before length")
    l0 = buf[off]
    off += 1
    if l0 < 128:
        length = l0
    elif l0 == 0x80:
        length = -1
    else:
        n = l0 & 0x7f
        if off + n > end:
            raise TLVError("eof in length")
        length = int.from_bytes(buf[off:off + n], "big")
        off += n
    hdrlen = off - start
    d = dict(off=start, cls=cls, num=num, constructed=constructed, hdrlen=hdrlen, length=length)
    if length >= 0:
        if off + length > end:
            raise TLVError("value beyond end")
        if constructed:
            ch = []
            p = off
            while p < off + length:
                c, p = parse_tlv(buf, p, off + length, depth + 1)
                ch.append(c)
            d["children"] = ch
        else:
            d["children"] = None
        d["total"] = hdrlen + length
        return d, off + length
    if not constructed:
        raise TLVError("indefinite primitive")
    ch = []
    p = off
    while True:
        if p + 2 <= end and buf[p] == 0 and buf[p + 1] == 0:
            p += 2
            break
        c, p = parse_tlv(buf, p, end, depth + 1)
        ch.append(c)
    d["children"] = ch
    d["total"] = p - start
    return d, p
