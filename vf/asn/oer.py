"""Reference encoder for canonical OER (X.696), written from the standard.
encode() returns bytes or None when outside the reference subset."""
from . import constraints as C
from .model import CLS_BITS, KM_KINDS
from .der import int_octets, real_octets, oid_octets, string_octets, values_equal


class Unsupported(Exception):
    pass


def length_det(n):
    if n < 128:
        return bytes([n])
    o = n.to_bytes((n.bit_length() + 7) // 8, "big")
    return bytes([0x80 | len(o)]) + o


def uint_min(v):
    return v.to_bytes(max(1, (v.bit_length() + 7) // 8), "big")


CHAR_WIDTH = {"IA5String": 1, "VisibleString": 1, "PrintableString": 1, "NumericString": 1, "BMPString": 2,
              "UniversalString": 4}


class Encoder:
    def __init__(self, mod, extra_additions=None):
        self.mod = mod
        self.extra = extra_additions or {}

    def encode(self, t, v):
        return self.enc(t, v)

    def fixed_size(self, t):
        specs = C.chain(self.mod, t, "size_c")
        if not specs:
            return None
        lb, ub, root = C.oer_visible(specs, C.IntSet([(0, None)]))
        if lb is not None and lb == ub and any(not e for tr, e, a in specs):
            return lb
        return None

    def enc(self, t, v):
        mod = self.mod
        rt = mod.resolve(t)
        k = rt.kind
        if k == "BOOLEAN":
            return b"\xff" if v else b"\x00"
        if k == "NULL":
            return b""
        if k == "INTEGER":
            specs = C.chain(mod, t, "value_c")
            lb, ub, root = C.oer_visible(specs) if specs else (None, None, None)
            if lb is not None and lb >= 0:
                if ub is not None:
                    for n, lim in ((1, 0xff), (2, 0xffff), (4, 0xffffffff), (8, (1 << 64) - 1)):
                        if ub <= lim:
                            return v.to_bytes(n, "big")
                o = uint_min(v)
                return length_det(len(o)) + o
            if lb is not None and ub is not None:
                for n in (1, 2, 4, 8):
                    if lb >= -(1 << (8 * n - 1)) and ub <= (1 << (8 * n - 1)) - 1:
                        return v.to_bytes(n, "big", signed=True)
            o = int_octets(v)
            return length_det(len(o)) + o
        if k == "ENUMERATED":
            if 0 <= v <= 127:
                return bytes([v])
            o = int_octets(v)
            return bytes([0x80 | len(o)]) + o
        if k == "REAL":
            o = real_octets(v)
            return length_det(len(o)) + o
        if k == "BIT STRING":
            data, nbits = v
            nbytes = (nbits + 7) // 8
            fs = self.fixed_size(t)
            if fs is not None:
                return bytes(data[:nbytes])
            return length_det(nbytes + 1) + bytes([nbytes * 8 - nbits]) + bytes(data[:nbytes])
        if k == "OCTET STRING":
            if self.fixed_size(t) is not None:
                return bytes(v)
            return length_det(len(v)) + bytes(v)
        if k in KM_KINDS:
            o = string_octets(k, v)
            if self.fixed_size(t) is not None:
                return o
            return length_det(len(o)) + o
        if k in ("UTF8String", "UTCTime", "GeneralizedTime"):
            o = string_octets(k, v)
            return length_det(len(o)) + o
        if k in ("OBJECT IDENTIFIER", "RELATIVE-OID"):
            o = oid_octets(v, relative=(k == "RELATIVE-OID"))
            return length_det(len(o)) + o
        if k == "SEQUENCE":
            return self.enc_sequence(rt, v)
        if k == "CHOICE":
            alt, av = v
            c = [c for c in rt.all_comps() if c.name == alt][0]
            chain = mod.comp_chain(c)
            if not chain:
                raise Unsupported("untagged CHOICE alternative")
            cls, num = chain[0]
            if num < 63:
                tag = bytes([(CLS_BITS[cls] << 6) | num])
            else:
                tag = bytes([(CLS_BITS[cls] << 6) | 0x3f]) + oid_octets([num], relative=True)
            body = self.enc(c.type, av)
            if rt.ext is not None and c in rt.ext:
                body = length_det(len(body)) + body
            return tag + body
        if k in ("SEQUENCE OF", "SET OF"):
            q = uint_min(len(v))
            return bytes([len(q)]) + q + b"".join(self.enc(rt.elem, e) for e in v)
        raise Unsupported(k)

    def enc_sequence(self, rt, v):
        root = list(rt.comps or []) + list(rt.comps2 or [])
        adds = list(rt.ext or [])

        def present(c):
            if c.name not in v:
                return False
            if c.has_default and values_equal(v[c.name], c.default):
                return False
            return True
        xpat = self.extra.get(id(rt), 0)
        xpat = [1] * xpat if isinstance(xpat, int) else list(xpat)
        nextra = len(xpat) if any(xpat) else 0
        bits = []
        anyadd = any(present(c) for c in adds) or nextra > 0
        if rt.ext is not None:
            bits.append(1 if anyadd else 0)
        for c in root:
            if c.optional or c.has_default:
                bits.append(1 if present(c) else 0)
        out = b""
        if bits:
            while len(bits) % 8:
                bits.append(0)
            out += bytes(int("".join(map(str, bits[i:i + 8])), 2) for i in range(0, len(bits), 8))
        for c in root:
            if present(c):
                out += self.enc(c.type, v[c.name])
            elif not (c.optional or c.has_default):
                raise Unsupported("missing mandatory")
        if rt.ext is not None and anyadd:
            pb = [1 if present(c) else 0 for c in adds] + [1 if x else 0 for x in xpat[:nextra]]
            unused = (-len(pb)) % 8
            pbb = pb + [0] * unused
            bm = bytes(int("".join(map(str, pbb[i:i + 8])), 2) for i in range(0, len(pbb), 8))
            out += length_det(1 + len(bm)) + bytes([unused]) + bm
            for c in adds:
                if present(c):
                    body = self.enc(c.type, v[c.name])
                    out += length_det(len(body)) + body
            for i in range(nextra):
                if not xpat[i]:
                    continue
                body = bytes([0xA5, i, 0x5A][: i % 3])
                out += length_det(len(body)) + body
        return out


def encode(mod, t, v, extra_additions=None):
    try:
        return Encoder(mod, extra_additions).encode(t, v)
    except (Unsupported, KeyError):
        return None
