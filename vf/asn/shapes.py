"""A fixed 'shapes' module: constructs and value families that random
generation reaches too rarely (long runs of OPTIONAL members, open-type and
string lengths at the 16K fragmentation multiples, tag numbers at the
one-octet/multi-octet limits of each syntax, counts at boundaries)."""
from .model import Module, Type, Comp, Constraint, MAX
from . import gen as _gen


def build(name="SH"):
    m = Module(name, "AUTOMATIC")
    # S1: long optional run, mandatory tail
    m.add("S1", Type("SEQUENCE", comps=[Comp("o%d" % i, Type("INTEGER" if i % 3 else "BOOLEAN"), optional=True) for i in range(12)] +
               [Comp("m", Type("IA5String"))]))
    # S1e: the same under explicit universal tags where possible is not valid (ambiguous); S1b uses DEFAULTs
    m.add("S1b", Type("SEQUENCE", comps=[Comp("d%d" % i, Type("INTEGER"), has_default=True, default=i) for i in range(10)] +
                [Comp("z", Type("NULL"))]))
    # S2: extension additions carrying long strings (open types under PER, length-prefixed under OER)
    m.add("S2", Type("SEQUENCE", comps=[Comp("a", Type("INTEGER"))],
               ext=[Comp("x", Type("OCTET STRING"), optional=True), Comp("y", Type("IA5String"), optional=True),
                    Comp("b", Type("BIT STRING"), optional=True)]))
    m.add("S3", Type("CHOICE", comps=[Comp("a", Type("NULL"))], ext=[Comp("x", Type("OCTET STRING")), Comp("u", Type("UTF8String"))]))
    m.add("S4o", Type("OCTET STRING"))
    m.add("S4i", Type("IA5String"))
    m.add("S4b", Type("BIT STRING"))
    m.add("S4u", Type("UTF8String"))
    m.add("S4s", Type("OCTET STRING", size_c=Constraint([(("range", 0, 70000), False, None)])))
    m.add("S5", Type("SEQUENCE OF", elem=Type("BOOLEAN")))
    m.add("S5s", Type("SET OF", elem=Type("INTEGER", value_c=Constraint([(("range", 0, 255), False, None)]))))
    # S6: choice alternatives with tag numbers around the OER / BER short-form limits
    m.add("S6", Type("CHOICE", comps=[Comp("t%d" % n, Type("NULL", tag=("C", n, None))) for n in (0, 30, 31, 62, 63, 64, 126, 127)]))
    m.add("S7", Type("SEQUENCE", comps=[Comp("p", Type("INTEGER", tag=("A", 30, "IMPLICIT"))), Comp("q", Type("INTEGER", tag=("P", 31, "EXPLICIT"))),
                                        Comp("r", Type("BOOLEAN", tag=("C", 16383, None)), optional=True),
                                        Comp("s", Type("BOOLEAN", tag=("C", 16384, None)), optional=True)]))
    # integers: semi-constrained with a negative / large lower bound, upper-bounded only, ranges that straddle the 1/2/4-octet
    # OER widths on one side only
    rng_ = lambda lo, hi, ext=False: Constraint([(("range", lo, hi), ext, None)])
    m.add("I0", Type("INTEGER", value_c=rng_(0, MAX)))
    m.add("I1", Type("INTEGER", value_c=rng_(-10, MAX)))
    m.add("I2", Type("INTEGER", value_c=rng_(-10, MAX, True)))
    m.add("I3", Type("INTEGER", value_c=rng_(70000, MAX)))
    m.add("I4", Type("INTEGER", value_c=rng_(-100000, 100)))
    m.add("I5", Type("INTEGER", value_c=rng_(-129, 100)))
    m.add("I6", Type("INTEGER", value_c=rng_(-10, 32768)))
    m.add("I7", Type("INTEGER", value_c=rng_(-2147483649, 5)))
    # extensible SEQUENCEs whose root ends in a run of OPTIONAL / DEFAULT components, with additions that may all be absent:
    # what follows the last present root component is then found by looking across the absent ones into the extension
    for nm_, tail_ in (("XT1", 1), ("XT2", 2), ("XT3", 3)):
        root_ = [Comp("h", Type("INTEGER"))]
        for j_ in range(tail_):
            root_.append(Comp("o%d" % j_, Type(["BOOLEAN", "IA5String", "INTEGER"][j_]), optional=(j_ != 2),
                              has_default=(j_ == 2), default=(5 if j_ == 2 else None)))
        m.add(nm_, Type("SEQUENCE", comps=root_, ext=[Comp("x0", Type("OCTET STRING"), optional=True), Comp("x1", Type("NULL"), optional=True)]))
    # ranges that end exactly on, one below and one above the limits of the fixed OER widths (X.696 10) and of the PER
    # range-octet counts: the compiler emits the width table, off-by-one there changes the wire format only at the limit
    for i_, (lo_, hi_) in enumerate(WIDTH_EDGES):
        m.add("W%d" % i_, Type("INTEGER", value_c=rng_(lo_, hi_)))
    # sizes whose upper bound is 64K or more while the range is narrow (unconstrained length form, X.691 11.9)
    m.add("Z1", Type("OCTET STRING", size_c=rng_(65530, 65540)))
    m.add("Z2", Type("IA5String", size_c=rng_(1, 65536)))
    m.add("Z3", Type("OCTET STRING", size_c=Constraint([(("val", 70000), False, None)])))
    m.add("Z4", Type("SEQUENCE OF", elem=Type("BOOLEAN"), size_c=rng_(65535, 65537)))
    # exactly 8 and 16 extension additions (the OER presence bitmap has no unused bits)
    for k in (8, 16, 63, 64, 65):
        m.add("X%d" % k, Type("SEQUENCE", comps=[Comp("a%d" % k, Type("INTEGER"))],
                              ext=[Comp("e%d-%d" % (k, i), Type("INTEGER"), optional=True) for i in range(1, k + 1)]))
    # more than 64 extension additions / alternatives / enumeration items: "normally small" numbers and lengths above 63 / 64
    m.add("X70", Type("SEQUENCE", comps=[Comp("a70", Type("INTEGER"))], ext=[Comp("e70-%d" % i, Type("INTEGER"), optional=True) for i in range(1, 71)]))
    m.add("N70", Type("ENUMERATED", items=[("r70", 0)], ext_items=[("n70-%d" % i, i) for i in range(1, 71)]))
    m.add("C70", Type("CHOICE", comps=[Comp("z70", Type("NULL"))], ext=[Comp("c70-%d" % i, Type("INTEGER")) for i in range(1, 71)]))
    # a SET with DEFAULT members kept inline (INTEGER, BOOLEAN) next to an OPTIONAL one
    m.add("D1", Type("SET", comps=[Comp("user", Type("IA5String")), Comp("retries", Type("INTEGER"), has_default=True, default=0),
                                   Comp("quota", Type("INTEGER"), has_default=True, default=10),
                                   Comp("flag", Type("BOOLEAN"), has_default=True, default=False),
                                   Comp("note", Type("UTF8String"), optional=True)]))
    # an extensible ENUMERATED of which every item is exercised
    m.add("En", Type("ENUMERATED", items=[("red", 0), ("green", 1), ("blue", 2)], ext_items=[("amber", 3), ("violet", 4)]))
    m.add("En2", Type("SEQUENCE", comps=[Comp("n", Type("INTEGER", value_c=rng_(0, 7))), Comp("c", Type("REF", ref="En"))]))
    for t in m.types.values():
        _gen._set_module(t, m)
    m.finalize()
    return m


def build2(name="SH2"):
    """shapes that need explicit tagging: untagged CHOICE members (tag2el search), long OPTIONAL runs in front of members that
    are decoded piecewise, the same inside SET"""
    m = Module(name, "EXPLICIT")
    # member names are unique module-wide: asn1c derives C names of inline types from them
    pair = lambda x: Type("SEQUENCE", comps=[Comp("a" + x, Type("INTEGER")), Comp("b" + x, Type("INTEGER"))])
    body = lambda x: Type("CHOICE", comps=[Comp("text" + x, Type("UTF8String")), Comp("raw" + x, Type("OCTET STRING")), Comp("pair" + x, pair(x)),
                                           Comp("lst" + x, Type("SEQUENCE OF", elem=Type("IA5String"), tag=("C", 0, "IMPLICIT")))])
    m.add("T1", Type("SEQUENCE", comps=[Comp("id1", Type("INTEGER")), Comp("body1", body("1")), Comp("flag1", Type("BOOLEAN"))]))
    m.add("T2", Type("SEQUENCE", comps=[Comp("o%d" % i, Type("INTEGER" if i % 2 else "BOOLEAN", tag=("C", i, "IMPLICIT")), optional=True) for i in range(10)] +
               [Comp("tail", Type("OCTET STRING", tag=("C", 10, "IMPLICIT")), optional=True),
                Comp("tail2", Type("SEQUENCE", comps=[Comp("a2", Type("INTEGER")), Comp("s2", Type("IA5String"))], tag=("C", 11, "IMPLICIT")), optional=True),
                Comp("end", Type("BOOLEAN"))]))
    m.add("T3", Type("SET", comps=[Comp("id3", Type("INTEGER")), Comp("body3", body("3")), Comp("flag3", Type("BOOLEAN")),
                                   Comp("opt3", Type("SEQUENCE OF", elem=Type("INTEGER"), tag=("C", 7, "IMPLICIT")), optional=True),
                                   Comp("lvl3", Type("INTEGER", tag=("C", 9, "IMPLICIT")), has_default=True, default=5)]))
    m.add("T4", Type("SEQUENCE", comps=[Comp("c1", Type("CHOICE", comps=[Comp("a4", Type("SEQUENCE OF", elem=Type("UTF8String"), tag=("C", 0, "IMPLICIT"))),
                                                                        Comp("b4", Type("IA5String", tag=("C", 1, "IMPLICIT")))]), optional=True),
                                        Comp("c2", Type("CHOICE", comps=[Comp("x4", pair("5")), Comp("y4", Type("BIT STRING"))]))],
               ext=[Comp("e1", Type("CHOICE", comps=[Comp("p4", Type("OCTET STRING", tag=("C", 5, "IMPLICIT"))),
                                                     Comp("q4", Type("SEQUENCE OF", elem=Type("BOOLEAN"), tag=("C", 6, "IMPLICIT")))]), optional=True)]))
    # T5: canonical order of a CHOICE with an untagged CHOICE alternative whose tags are of different classes
    m.add("T5", Type("CHOICE", comps=[Comp("inner5", Type("CHOICE", comps=[Comp("p5", Type("BOOLEAN", tag=("A", 3, "IMPLICIT"))),
                                                                          Comp("q5", Type("BOOLEAN", tag=("C", 1, "IMPLICIT")))])),
                                      Comp("z5", Type("BOOLEAN", tag=("C", 0, "IMPLICIT"))),
                                      Comp("w5", Type("INTEGER", tag=("P", 0, "IMPLICIT")))]))
    # T6/T7: EXPLICIT tags around contents whose length crosses the 127/128, 255/256 and 64K length-form boundaries
    m.add("T6", Type("SEQUENCE", comps=[Comp("a6", Type("OCTET STRING", tag=("C", 1, "EXPLICIT"))), Comp("b6", Type("BOOLEAN"))]))
    m.add("T7", Type("SEQUENCE", comps=[Comp("x7", Type("IA5String", tag=("C", 0, "EXPLICIT")))], tag=("A", 5, "EXPLICIT")))
    m.add("T8", Type("OCTET STRING", tag=("P", 2, "EXPLICIT")))
    m.add("T9", Type("ENUMERATED", items=[("red9", 0), ("green9", 1), ("blue9", 2)], ext_items=[("amber9", 3), ("violet9", 4)]))
    m.add("T10", Type("SEQUENCE", comps=[Comp("n10", Type("INTEGER", value_c=Constraint([(("range", 0, 7), False, None)]))), Comp("c10", Type("REF", ref="T9"))]))
    for t in m.types.values():
        _gen._set_module(t, m)
    m.finalize()
    return m


EXPL_LENS = sorted(set(b + d for b in (128, 256, 65536) for d in range(-8, 3)))


def values2(mod, name, rng, quick):
    def bodies(x):
        return [("text" + x, "héllo wörld"), ("text" + x, ""), ("raw" + x, b"\x01\x02\x03\x04\x05\x06"), ("raw" + x, b""),
                ("pair" + x, {"a" + x: 1, "b" + x: -70000}), ("lst" + x, ["ab", "", "cde"]), ("lst" + x, [])]
    out = []
    if name == "T1":
        out = [{"id1": 42, "body1": b, "flag1": True} for b in bodies("1")]
    elif name == "T2":
        out = [{"end": True}, {"tail": b"\x01\x02\x03\x04\x05", "end": False}, {"tail2": {"a2": 300, "s2": "xyz"}, "end": True},
               {"o9": 5, "tail": b"\xaa\xbb\xcc", "tail2": {"a2": -1, "s2": "q"}, "end": False}, {"o0": True, "o8": False, "tail2": {"a2": 0, "s2": ""}, "end": True},
               dict([("o%d" % i, (i if i % 2 else bool(i & 2))) for i in range(10)] + [("tail", b"zz"), ("tail2", {"a2": 7, "s2": "all"}), ("end", False)])]
    elif name == "T3":
        out = [{"id3": 7, "body3": b, "flag3": False} for b in bodies("3")] + [{"id3": 1, "body3": ("pair3", {"a3": 0, "b3": 0}), "flag3": True, "opt3": [1, 2, 300]},
                                                                                     {"id3": 2, "body3": ("raw3", b"x"), "flag3": True, "lvl3": 6}]
    elif name == "T4":
        out = [{"c2": ("x4", {"a5": 5, "b5": 6})}, {"c2": ("y4", (b"\xa5\x80", 9))}, {"c1": ("a4", ["é", "zz"]), "c2": ("x4", {"a5": -1, "b5": 1})},
               {"c1": ("b4", "ia5"), "c2": ("y4", (b"", 0))}, {"c2": ("x4", {"a5": 1, "b5": 2}), "e1": ("p4", b"\x00\x01\x02")},
               {"c1": ("a4", []), "c2": ("y4", (b"\x80", 1)), "e1": ("q4", [True, False, True])}]
    elif name == "T5":
        out = [("inner5", ("p5", True)), ("inner5", ("q5", False)), ("z5", True), ("w5", -1)]
    elif name in ("T6", "T7", "T8"):
        lens = [l for l in EXPL_LENS if l < 1000 or not quick or l in (65533, 65535, 65536)]
        for n in lens:
            if name == "T6":
                out.append({"a6": bytes((i * 5 + n) & 0xff for i in range(n)), "b6": True})
            elif name == "T7":
                out.append({"x7": "".join(chr(0x61 + (i % 26)) for i in range(n))})
            else:
                out.append(bytes(n))
    elif name == "T9":
        out = [0, 1, 2, 3, 4]
    elif name == "T10":
        out = [{"n10": 7, "c10": v_} for v_ in (0, 2, 3, 4)]
    return out


def build3(name="SZ"):
    """sizes: plain string types whose encodings are driven across the power-of-two totals, fixed-size BIT STRINGs"""
    m = Module(name, "AUTOMATIC")
    m.add("P", Type("OCTET STRING"))
    m.add("Q", Type("IA5String"))
    m.add("W", Type("SEQUENCE", comps=[Comp("s", Type("OCTET STRING")), Comp("f", Type("BOOLEAN"))]))
    for n in (17, 64, 200):
        m.add("B%d" % n, Type("BIT STRING", size_c=Constraint([(("val", n), False, None)])))
    m.add("O12", Type("OCTET STRING", size_c=Constraint([(("val", 12), False, None)])))
    # two types that refer to each other: asn1c holds the mandatory members of Pair by pointer
    m.add("Tree", Type("CHOICE", comps=[Comp("leaf", Type("INTEGER", value_c=Constraint.simple(0, 255))), Comp("pair", Type("REF", ref="Pair")),
                                       Comp("blob", Type("OCTET STRING"))]))
    m.add("Pair", Type("SEQUENCE", comps=[Comp("left", Type("REF", ref="Tree")), Comp("right", Type("REF", ref="Tree"))]))
    # an INTEGER of any size (INTEGER_t in a -fwide-types build)
    m.add("Huge", Type("INTEGER"))
    for t in m.types.values():
        _gen._set_module(t, m)
    m.finalize()
    return m


def values3(mod, name, quick):
    """-> [(value, valid)]"""
    out = []
    totals = (32, 64, 128, 256) if quick else (16, 32, 64, 128, 256, 512, 1024, 2048)
    lens = sorted(set(t + d for t in totals for d in range(-7, 2) if t + d >= 0))
    if name == "P":
        out = [(bytes((i * 13 + n) & 0xff for i in range(n)), True) for n in lens]
    elif name == "Q":
        out = [("".join(chr(0x41 + (i + n) % 26) for i in range(n)), True) for n in (lens if not quick else lens[::3])]
    elif name == "W":
        out = [({"s": bytes(n), "f": True}, True) for n in (lens if not quick else lens[::2])]
    elif name.startswith("B"):
        n = int(name[1:])
        nb = (n + 7) // 8
        full = bytearray(b"\xa5" * nb)
        if n % 8:
            full[-1] &= (0xff << (8 - n % 8)) & 0xff
        full[(n - 1) // 8] |= 0x80 >> ((n - 1) % 8)
        out.append(((bytes(full), n), True))
        for bits in (0, 1, 8, 9, 24, 40, n - 9, n - 1, n + 1, n + 8, n + 17):
            if 0 <= bits != n:
                k = (bits + 7) // 8
                data = bytearray(b"\x5a" * k)
                if bits % 8:
                    data[-1] &= (0xff << (8 - bits % 8)) & 0xff
                if bits:
                    data[(bits - 1) // 8] |= 0x80 >> ((bits - 1) % 8)
                out.append(((bytes(data), bits), False))
    elif name == "O12":
        out = [(bytes(range(12)), True)] + [(bytes(range(k)), False) for k in (0, 1, 11, 13, 28)]
    elif name == "Tree":
        out = [(("leaf", 7), True), (("pair", {"left": ("leaf", 1), "right": ("blob", b"xyz")}), True)]
    elif name == "Pair":
        out = [({"left": ("leaf", 1), "right": ("leaf", 2)}, True),
               ({"left": ("pair", {"left": ("leaf", 3), "right": ("leaf", 4)}), "right": ("blob", b"")}, True)]
    elif name == "Huge":
        out = [(v_, True) for v_ in (0, -1, (1 << 63) - 1, 1 << 64, -(1 << 64), 1 << 80, -(1 << 87) - 12345, (1 << 160) + 77, (1 << 255) - 19, -(1 << 300))]
    return out


def build4(name="EQ"):
    """shapes for representation independence: DEFAULTs of every inline kind, INTEGERs whose minimal form starts with 0x80 / 0x7f,
    short BIT STRINGs, sets"""
    m = Module(name, "AUTOMATIC")
    dfl = lambda x: [Comp("b" + x, Type("BOOLEAN"), has_default=True, default=True), Comp("c" + x, Type("BOOLEAN"), has_default=True, default=False),
                     Comp("i" + x, Type("INTEGER"), has_default=True, default=5),
                     Comp("e" + x, Type("ENUMERATED", items=[("x" + x, 0), ("y" + x, 1)]), has_default=True, default=1),
                     Comp("n" + x, Type("INTEGER"))]
    m.add("E1", Type("SEQUENCE", comps=dfl("1")))
    m.add("E2", Type("INTEGER"))
    m.add("E3", Type("SET OF", elem=Type("INTEGER")))
    m.add("E4", Type("BIT STRING"))
    m.add("E5", Type("SET", comps=dfl("5")))
    m.add("E6", Type("SEQUENCE OF", elem=Type("REF", ref="E2")))
    m.add("E7", Type("SEQUENCE", comps=[Comp("bs7", Type("BIT STRING")), Comp("in7", Type("REF", ref="E2")), Comp("so7", Type("REF", ref="E3"))]))
    # character string DEFAULTs (the generated setter allocates a copy), in the root and among the additions
    m.add("E9", Type("SET OF", elem=Type("INTEGER", value_c=Constraint([(("range", 0, 7), False, None)]))))
    m.add("E10", Type("SET OF", elem=Type("SEQUENCE", comps=[Comp("p10", Type("INTEGER", value_c=Constraint([(("range", 0, 3), False, None)]))),
                                                             Comp("q10", Type("BOOLEAN"))])))
    m.add("E11", Type("SEQUENCE", comps=[Comp("q11", Type("IA5String"), has_default=True, default='say "hi"'),
                                         Comp("r11", Type("VisibleString"), has_default=True, default='"'),
                                         Comp("b11", Type("IA5String"), has_default=True, default="a\\b\\"),
                                         Comp("n11", Type("INTEGER"))]))
    # time values that leave room for every non-DER notation (zero seconds / minutes), special REAL values
    m.add("E12", Type("GeneralizedTime"))
    m.add("E13", Type("UTCTime"))
    m.add("E14", Type("REAL"))
    m.add("E15", Type("SEQUENCE", comps=[Comp("r15", Type("REAL")), Comp("t15", Type("GeneralizedTime"), optional=True)]))
    m.add("Colour", Type("ENUMERATED", items=[("red", 0), ("green", 1), ("blue", 2)]))
    m.add("E16", Type("SET OF", elem=Type("REF", ref="Colour")))
    m.add("E17", Type("SET OF", elem=Type("BOOLEAN")))
    m.add("E8", Type("SEQUENCE", comps=[Comp("s8", Type("IA5String"), has_default=True, default="hello"),
                                        Comp("u8", Type("UTF8String"), has_default=True, default=""),
                                        Comp("n8", Type("INTEGER")),
                                        # an INTEGER_t member (64-bit range on both sides): its DEFAULT setter allocates twice
                                        Comp("w8", Type("INTEGER", value_c=Constraint.simple(-(1 << 63), (1 << 63) - 1)), has_default=True, default=7),
                                        Comp("v8", Type("VisibleString"), has_default=True, default="a longer default value, 40 characters..")],
                      ext=[Comp("x8", Type("IA5String"), has_default=True, default="ext")]))
    for t in m.types.values():
        _gen._set_module(t, m)
    m.finalize()
    return m


EQ_INTS = [0, 1, -1, 127, 128, -128, -129, 255, 256, -256, 32767, 32768, -32768, -32769, -8388608, 8388607, -(1 << 31), (1 << 31) - 1, 1 << 31,
           -(1 << 39), (1 << 39) - 1, -(1 << 47), -(1 << 55), -(1 << 63), (1 << 63) - 1]


def values4(mod, name, rng, quick):
    out = []
    if name in ("E1", "E5"):
        x = name[1]
        out = [{"n" + x: 1}, {"b" + x: False, "n" + x: 2}, {"c" + x: True, "i" + x: 6, "n" + x: 3}, {"e" + x: 0, "n" + x: -128},
               {"b" + x: False, "c" + x: True, "i" + x: -128, "e" + x: 0, "n" + x: -32768}]
    elif name == "E2":
        out = list(EQ_INTS)
    elif name == "E3":
        out = [[], [1], [3, 1, 2], [-128, 127, -129, 128, 0], [5, 5, 5], sorted(EQ_INTS[:12], reverse=True)]
    elif name == "E4":
        out = [(b"", 0)] + [(bytes([(0xff << (8 - n)) & 0xff]), n) for n in range(1, 8)] + [(b"\xa8", 5), (b"\xff\x80", 9), (b"\x00\x01", 16)]
    elif name == "E6":
        out = [[], EQ_INTS[5:9], EQ_INTS[-6:]]
    elif name == "E7":
        out = [{"bs7": (b"\xa8", 5), "in7": -128, "so7": [2, 1]}, {"bs7": (b"\x80", 1), "in7": -32768, "so7": [-128, -129, 0]}]
    elif name == "E9":
        out = [[1, 4, 6], [6, 4, 1], [7, 0, 3, 5], [2, 2, 1], [0, 7], []]
    elif name == "E10":
        out = [[{"p10": 1, "q10": False}, {"p10": 1, "q10": True}, {"p10": 0, "q10": True}], [{"p10": 3, "q10": True}, {"p10": 2, "q10": True}], []]
    elif name == "E11":
        out = [{"n11": 1}, {"q11": 'say "hi"', "n11": 2}, {"r11": '"', "n11": 3}, {"q11": 'say "hi', "r11": '""', "n11": 4}, {"q11": "x", "r11": "y", "n11": 5}, {"b11": "a\\b\\", "n11": 6}, {"b11": "ab", "n11": 7}]
    elif name == "E12":
        out = ["20200101120000Z", "20200101123000Z", "20200101123045Z", "20200101123045.5Z", "19991231235959.999Z"]
    elif name == "E13":
        out = ["200101120000Z", "200101123000Z", "991231235959Z"]
    elif name == "E14":
        out = [float("nan"), float("inf"), float("-inf"), 0.0, 1.5, -2.0]
    elif name == "E15":
        out = [{"r15": float("nan")}, {"r15": float("nan"), "t15": "20200101120000Z"}, {"r15": 3.0, "t15": "20200101123000Z"}]
    elif name == "E16":
        out = [[2, 0, 1], [0, 1, 2], [2, 2, 0], [1], []]
    elif name == "E17":
        out = [[True, False, True], [False, True], []]
    elif name == "E8":
        out = [{"n8": 1}, {"s8": "hello", "n8": 2}, {"s8": "other", "u8": "x", "n8": 3}, {"n8": 4, "v8": "v", "x8": "y"}, {"n8": 5, "x8": "ext"}]
    return out


def build5(name="OPT"):
    """shapes whose C representation depends on the code-generation options: alias chains of constrained strings, DEFAULT / OPTIONAL
    extension additions (inline vs pointer members), CHOICE inside CHOICE, integers at the native/wide divide"""
    m = Module(name, "AUTOMATIC")
    from .model import Constraint as K
    al = K([(("union", ("range", "a", "c"), ("range", "x", "z")), False, None)])
    m.add("Code", Type("IA5String", alpha_c=al))
    m.add("Label", Type("REF", ref="Code"))
    m.add("Tag2", Type("REF", ref="Label"))
    m.add("Sized", Type("REF", ref="Code", size_c=K.simple(1, 4)))
    m.add("Box", Type("SEQUENCE", comps=[Comp("l", Type("REF", ref="Label")), Comp("c", Type("REF", ref="Code")), Comp("t", Type("REF", ref="Tag2"), optional=True)]))
    m.add("X1", Type("SEQUENCE", comps=[Comp("xa", Type("INTEGER"))],
               ext=[Comp("d0", Type("INTEGER"), has_default=True, default=0), Comp("d1", Type("BOOLEAN"), has_default=True, default=False),
                    Comp("xo", Type("INTEGER"), optional=True)]))
    m.add("X3", Type("SEQUENCE", comps=[Comp("za", Type("INTEGER", value_c=K.simple(0, 255)))],
               ext=[Comp("zr", Type("INTEGER"), has_default=True, default=0), Comp("zn", Type("IA5String"), optional=True)]))
    m.add("X2", Type("SEQUENCE", comps=[Comp("ya", Type("INTEGER"), has_default=True, default=0), Comp("yb", Type("BOOLEAN"), has_default=True, default=True),
                                        Comp("yc", Type("INTEGER", value_c=K.simple(0, 255)), optional=True)]))
    # negative DEFAULTs and negatively numbered enumeration items: the wide representations (INTEGER_t, ENUMERATED_t) compare and
    # print them by other code than the native ones
    m.add("En", Type("ENUMERATED", items=[("falling", -1), ("flat", 0), ("rising", 1), ("steep", -300)]))
    m.add("X4", Type("SEQUENCE", comps=[Comp("bias", Type("INTEGER"), has_default=True, default=-1),
                                        Comp("mode", Type("REF", ref="En"), has_default=True, default=-1),
                                        Comp("k", Type("INTEGER", value_c=K.simple(-5, 5)), has_default=True, default=-5),
                                        Comp("far", Type("INTEGER"), has_default=True, default=-70000),
                                        Comp("n", Type("INTEGER"))]))
    m.add("N1", Type("INTEGER", value_c=K([(("range", 0, MAX), False, None)])))
    m.add("N2", Type("INTEGER", value_c=K.simple(-5, 5)))
    m.add("N3", Type("INTEGER"))
    m.add("R1", Type("REAL"))
    m.add("Ch", Type("CHOICE", comps=[Comp("ca", Type("INTEGER")), Comp("cb", Type("CHOICE", comps=[Comp("cx", Type("BOOLEAN")), Comp("cy", Type("REF", ref="Code"))])),
                                      Comp("cl", Type("SEQUENCE OF", elem=Type("REF", ref="N2")))]))
    # untagged CHOICE inside untagged CHOICE (manual tags switch automatic tagging off for these types): the outermost tag
    # of the value is found through two levels of alternatives, which -findirect-choice holds by pointer
    m.add("Inner", Type("CHOICE", comps=[Comp("ia", Type("INTEGER", tag=("C", 0, None))), Comp("ib", Type("IA5String", tag=("C", 1, None)))]))
    m.add("Outer", Type("CHOICE", comps=[Comp("oi", Type("REF", ref="Inner")), Comp("on", Type("NULL", tag=("C", 7, None)))]))
    m.add("USet", Type("SET", comps=[Comp("tail", Type("INTEGER", tag=("C", 5, None))), Comp("body", Type("REF", ref="Outer"))]))
    m.add("Wrap3", Type("CHOICE", comps=[Comp("w", Type("REF", ref="Outer")), Comp("z", Type("BOOLEAN", tag=("C", 9, None)))]))
    for t in m.types.values():
        _gen._set_module(t, m)
    m.finalize()
    return m


def values5(mod, name, rng, quick):
    out = []
    if name in ("Code", "Label", "Tag2"):
        out = ["", "a", "abcxyz", "zzzza", "cxbya"]
    elif name == "Sized":
        out = ["a", "zz", "abcx"]
    elif name == "Box":
        out = [{"l": "ax", "c": "zc"}, {"l": "", "c": "b", "t": "xyz"}]
    elif name == "X1":
        out = [{"xa": 7}, {"xa": 7, "d0": 5}, {"xa": -1, "d1": True}, {"xa": 0, "xo": 9}, {"xa": 300, "d0": -1, "d1": True, "xo": -70000}]
    elif name == "X3":
        out = [{"za": 7}, {"za": 7, "zr": 2}, {"za": 0, "zn": "hi"}, {"za": 255, "zr": -1, "zn": ""}]
    elif name == "X2":
        out = [{}, {"ya": 3}, {"yb": False}, {"yc": 255}, {"ya": -128, "yb": False, "yc": 0}]
    elif name == "En":
        out = [-1, 0, 1, -300]
    elif name == "X4":
        out = [{"n": 1}, {"n": 0, "bias": -1, "mode": -1, "k": -5, "far": -70000}, {"n": -1, "bias": -2, "mode": -300, "k": 5, "far": -70001},
               {"n": 2, "bias": 255, "mode": 1}, {"n": 3, "mode": 0, "far": 70000}]
    elif name == "N1":
        out = [0, 1, 127, 128, 255, 256, 65535, 65536, (1 << 31) - 1, 1 << 31, (1 << 32) - 1, 1 << 32, (1 << 63) - 1]
    elif name == "N2":
        out = [-5, -1, 0, 5]
    elif name == "N3":
        out = [0, -1, 127, 128, -128, -129, (1 << 31) - 1, -(1 << 31), (1 << 63) - 1, -(1 << 63)]
    elif name == "R1":
        out = [0.0, 1.0, -2.5, 1e100, 0.1, 5e-324, float("inf")]
    elif name == "Ch":
        out = [("ca", 5), ("cb", ("cx", True)), ("cb", ("cy", "abz")), ("cl", [-5, 0, 5]), ("cl", [])]
    elif name == "Inner":
        out = [("ia", 7), ("ib", "abc")]
    elif name == "Outer":
        out = [("oi", ("ia", 7)), ("oi", ("ib", "abc")), ("on", None)]
    elif name == "USet":
        out = [{"tail": 42, "body": ("oi", ("ia", 7))}, {"tail": 42, "body": ("oi", ("ib", "x"))}, {"tail": -1, "body": ("on", None)}]
    elif name == "Wrap3":
        out = [("w", ("oi", ("ia", 7))), ("w", ("oi", ("ib", "abc"))), ("w", ("on", None)), ("z", True)]
    return out


WIDTH_EDGES = [(0, 255), (0, 256), (0, 254), (0, 65535), (0, 65536), (0, 4294967295), (0, 4294967294), (0, 4294967296),
               (-128, 127), (-129, 127), (-128, 128), (-32768, 32767), (-32769, 32767), (-2147483648, 2147483647),
               (-2147483648, 2147483648), (1, 256), (1, 65536), (0, 18446744073709551615), (-9223372036854775808, 9223372036854775807)]

LEN_16K = sorted(set(b + d for b in (16384, 32768, 49152, 65536) for d in range(-4, 3)))


def values(mod, name, rng, quick):
    """hand-picked value families per shape type"""
    t = mod.types[name]
    out = []
    if name == "S1":
        out += [{"m": "x"}, {"o0": True, "m": ""}, {"o8": 5, "m": "a"}, {"o9": False, "m": "a"}, {"o10": 1, "m": "a"}, {"o11": -1, "m": "a"},
                {"o0": False, "o11": 7, "m": "b"}, {"o1": 3, "o10": 4, "m": "c"},
                dict([("o%d" % i, (i % 3 != 0) and i or bool(i & 1)) for i in range(12)] + [("m", "all")])]
        for i in range(12):
            out.append({"o%d" % i: (i if i % 3 else True), "m": "k%d" % i})
    elif name == "S1b":
        out += [{"z": None}, {"d9": 100, "z": None}, {"d0": 0, "d9": 9, "z": None}, {"d8": 1, "z": None}, {"d5": 5, "z": None}]
    elif name in ("S2", "S3", "S4o", "S4i", "S4b", "S4u", "S4s"):
        lens = LEN_16K if not quick else LEN_16K
        if name in ("S4u", "S4b", "S4s", "S4i") and quick:
            lens = [l for l in LEN_16K if l % 16384 in (0, 16383, 1)]
        for n in lens + [0, 1, 127, 128, 255, 256]:
            o = bytes((i * 7 + n) & 0xff for i in range(n))
            s = "".join(chr(0x41 + (i % 26)) for i in range(n))
            if name == "S2":
                out.append({"a": n & 0xff, "x": o})
                if not quick or n % 16384 == 0:
                    out.append({"a": 1, "y": s})
                    out.append({"a": 2, "b": (o[:(n + 7) // 8][:-1] + b"\x01" if n >= 8 else b"\x80"[:1], max(1, (n // 8) * 8) if n >= 8 else 1)})
            elif name == "S3":
                out.append(("x", o))
                if not quick:
                    out.append(("u", s))
            elif name in ("S4o", "S4s"):
                out.append(o)
            elif name == "S4i":
                out.append(s)
            elif name == "S4u":
                out.append(s[:-1] + "é" if n else "")
            elif name == "S4b":
                nb = (n + 7) // 8
                data = bytearray(o[:nb])
                if n:
                    if n % 8:
                        data[-1] &= (0xff << (8 - n % 8)) & 0xff
                    data[(n - 1) // 8] |= 0x80 >> ((n - 1) % 8)
                out.append((bytes(data), n))
    elif name == "S5":
        for n in [0, 1, 127, 128, 16383, 16384, 16385] + ([] if quick else [32768, 49152, 65536, 65537]):
            out.append([bool(i & 1) for i in range(n)])
    elif name == "S5s":
        for n in [0, 1, 2, 127, 128, 300] + ([] if quick else [16383, 16384, 16385]):
            out.append([(i * 37) & 0xff for i in range(n)])
    elif name == "S6":
        out += [(c.name, None) for c in t.comps]
    elif name == "S7":
        out += [{"p": 1, "q": -1}, {"p": 0, "q": 0, "r": True}, {"p": 300, "q": -300, "s": False}, {"p": 1, "q": 2, "r": False, "s": True}]
    elif name == "I0":
        out += [0, 1, 127, 128, 255, 256, 32767, 32768, 65535, 65536, 8388607, 8388608, (1 << 31) - 1, 1 << 31, (1 << 32) - 1, 1 << 32, (1 << 63) - 1]
    elif name in ("I1", "I2"):
        out += [-10, -9, -1, 0, 1, 117, 118, 245, 246, 65525, 65526, 1 << 40]
    elif name == "I3":
        out += [70000, 70001, 70255, 70256, 135535, 135536, 1 << 40]
    elif name == "I4":
        out += [-100000, -32769, -32768, -129, -128, 0, 100]
    elif name == "I5":
        out += [-129, -128, 0, 100]
    elif name == "I6":
        out += [-10, 0, 127, 128, 32767, 32768]
    elif name == "I7":
        out += [-2147483649, -2147483648, -1, 5]
    elif name[0] == "W" and name[1:].isdigit():
        lo_, hi_ = WIDTH_EDGES[int(name[1:])]
        out += sorted(set([lo_, hi_, lo_ + 1, hi_ - 1, 0 if lo_ <= 0 <= hi_ else lo_, (lo_ + hi_) // 2]))
    elif name == "Z1":
        out += [bytes((i * 3) & 0xff for i in range(n)) for n in (65530, 65535, 65536, 65540)]
    elif name == "Z2":
        out += ["".join(chr(0x41 + (i % 26)) for i in range(n)) for n in ((1, 16384, 65536) if quick else (1, 2, 127, 128, 16383, 16384, 65535, 65536))]
    elif name == "Z3":
        out += [bytes((i * 11) & 0xff for i in range(70000))]
    elif name == "Z4":
        out += [[bool(i % 3) for i in range(n)] for n in (65535, 65536, 65537)]
    elif name in ("X8", "X16", "X63", "X64", "X65"):
        k = int(name[1:])
        out += [{"a%d" % k: 7}, {"a%d" % k: 7, "e%d-1" % k: 1, "e%d-%d" % (k, k): k}, {"a%d" % k: 1, "e%d-%d" % (k, k): -1},
                dict([("a%d" % k, 0)] + [("e%d-%d" % (k, i), i) for i in range(1, k + 1)]), {"a%d" % k: 2, "e%d-%d" % (k, k // 2): 5}]
    elif name in ("XT1", "XT2", "XT3"):
        n_ = int(name[2:])
        full = {"h": 1, "o0": True, "o1": "ab", "o2": 7}
        out += [{"h": 1}, {"h": 2, "x0": b"\x01"}, {"h": 3, "x1": None}]
        for j_ in range(n_):
            out.append(dict([("h", 10 + j_)] + [("o%d" % i_, full["o%d" % i_]) for i_ in range(j_ + 1)]))            # prefix present
            out.append(dict([("h", 20 + j_), ("o%d" % j_, full["o%d" % j_])]))                                       # one present
            out.append(dict([("h", 30 + j_), ("o%d" % j_, full["o%d" % j_]), ("x1", None)]))
    elif name == "X70":
        out += [{"a70": 1}, {"a70": 1, "e70-70": 5}, {"a70": 1, "e70-1": 5}, {"a70": 1, "e70-64": 5, "e70-65": 6}, {"a70": 1, "e70-63": -1}]
    elif name == "N70":
        out += [0, 1, 63, 64, 65, 70]
    elif name == "C70":
        out += [("z70", None), ("c70-1", 3), ("c70-64", 3), ("c70-65", 3), ("c70-70", -3)]
    elif name == "D1":
        out += [{"user": "bob"}, {"user": "bob", "retries": 3}, {"user": "al", "quota": 11, "flag": True}, {"user": "x", "note": "n"},
                {"user": "y", "retries": 0, "quota": 10, "flag": False}, {"user": "z", "retries": 1, "quota": 2, "flag": True, "note": ""}]
    elif name == "En":
        out += [0, 1, 2, 3, 4]
    elif name == "En2":
        out += [{"n": 7, "c": v_} for v_ in (0, 2, 3, 4)]
    return out
