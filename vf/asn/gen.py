"""Seeded generator of ASN.1 modules (bottom-up: atoms, then composites that
reference atoms and other composites) and of boundary-biased abstract values."""
import math, random, struct
from .model import (Module, Type, Comp, Constraint, MIN, MAX, ALPHABET, CHAR_KINDS, KM_KINDS,
                    STRING_KINDS)
from . import constraints as C

I63 = (1 << 63)
INT_EDGES = sorted(set(
    [0, 1, -1, 2, -2] +
    [s * ((1 << k) + d) for k in (7, 8, 15, 16, 23, 24, 31, 32, 39, 40, 47, 48, 55, 56, 62, 63)
     for d in (-1, 0, 1) for s in (1, -1)]))
LEN_EDGES = [0, 1, 2, 3, 7, 8, 15, 16, 127, 128, 129, 255, 256, 16383, 16384, 16385, 32767, 32768,
             49151, 49152, 65535, 65536, 65537]

DEFAULT_PROFILE = dict(
    kinds=["BOOLEAN", "INTEGER", "ENUMERATED", "NULL", "REAL", "BIT STRING", "OCTET STRING",
           "IA5String", "VisibleString", "PrintableString", "NumericString", "UTF8String",
           "BMPString", "UniversalString", "OBJECT IDENTIFIER", "RELATIVE-OID", "UTCTime",
           "GeneralizedTime"],
    composites=["SEQUENCE", "SET", "CHOICE", "SEQUENCE OF", "SET OF"],
    extensible=True,          # extension markers on constraints / enumerations / constructed types
    ext_additions=True,       # components after the marker
    constraints=True,
    alphabets=True,
    defaults=True,
    tagging=["EXPLICIT", "IMPLICIT", "AUTOMATIC"],
    big_tags=True,
    recursion=True,
    semi_constrained=True,    # (lo..MAX) / (MIN..hi)
    int_min=-I63, int_max=I63 - 1,
    unsigned64=False,         # constrained ranges beyond 2^63-1 (asn1c: unsigned long)
    max_len=40,               # cap for string / collection lengths in values
    long_values=False,        # allow LEN_EDGES beyond max_len occasionally
    set_type=True,
    second_root=False,
    named_bits=False,
    real_special=True,
    union_constraints=True,
    inline_depth=2,
    neg_defaults=True,
    inline_enum_explicit=True,
    bit_trailing_one=False,   # BIT STRING values always end in a 1 bit (KF: UPER/OER drop trailing zero bits)
    real_decimal15=False,     # REAL values exactly representable in <= 15 significant decimal digits (BASIC/CANONICAL XER text)
    wide_plain=False,         # BMPString/UniversalString values restricted to ASCII letters/digits (KF: XER)
       # DEFAULT with a negative INTEGER (KF: uncompilable C identifier)
)


def profile(**kw):
    p = dict(DEFAULT_PROFILE)
    p.update(kw)
    return p


class Gen:
    def __init__(self, seed, prof=None):
        self.rng = random.Random(seed)
        self.p = prof or dict(DEFAULT_PROFILE)
        self.n = 0

    # ------------------------------------------------------------ modules
    def module(self, name="M", atoms=12, composites=10, tagdefault=None):
        rng = self.rng
        mod = Module(name, tagdefault or rng.choice(self.p["tagging"]))
        self.mod = mod
        self.atom_names = []
        self.comp_names = []
        for i in range(atoms):
            t = self.atom()
            if rng.random() < 0.25:
                t = self.tagged(t)
            nm = "A%d" % i
            mod.add(nm, t)
            self.atom_names.append(nm)
        for i in range(composites):
            nm = "C%d" % i
            t = self.composite(nm, depth=0)
            mod.add(nm, t)
            self.comp_names.append(nm)
        for t in mod.types.values():
            _set_module(t, mod)
        mod.finalize()
        return mod

    def tagged(self, t, cls=None, num=None):
        rng = self.rng
        if t.tag:
            return t
        cls = cls or rng.choice("CCCAP")
        if num is None:
            if self.p["big_tags"] and rng.random() < 0.3:
                num = rng.choice([30, 31, 32, 62, 63, 64, 127, 128, 129, 16383, 16384, (1 << 21) - 1, 1 << 21,
                                  (1 << 28) - 1, 1 << 28, (1 << 29) - 1])
            else:
                num = rng.randrange(0, 30)
        t.tag = (cls, num, self.safe_mode(t))
        return t

    def safe_mode(self, t):
        """a tagging mode keyword that is legal for t: IMPLICIT must not be
        written on an untagged CHOICE (X.680 31.2.7)"""
        modes = [None, "IMPLICIT", "EXPLICIT"]
        if t.kind == "ENUMERATED" and not self.p.get("inline_enum_explicit"):
            # KF-C02: an inline ENUMERATED member with an EXPLICIT tag is emitted with the tag twice
            return "IMPLICIT"
        try:
            save, t.tag = t.tag, None
            try:
                if not self.mod.tag_chain(t):
                    modes = [None, "EXPLICIT"]
            finally:
                t.tag = save
        except (KeyError, ValueError):
            modes = [None, "EXPLICIT"]
        return self.rng.choice(modes)

    # ------------------------------------------------------------ atoms
    def int_constraint(self):
        rng, p = self.rng, self.p
        lo_min, hi_max = p["int_min"], p["int_max"]
        shape = rng.choice(["range", "range", "range", "single", "semi", "neg", "wide", "union"])
        ext = p["extensible"] and rng.random() < 0.25
        if shape == "single":
            v = rng.choice(INT_EDGES[:40]) if rng.random() < 0.5 else rng.randrange(-1000, 1000)
            v = max(lo_min, min(hi_max, v))
            return Constraint([(("val", v), ext, None)])
        if shape == "semi" and p["semi_constrained"]:
            if rng.random() < 0.6:
                return Constraint([(("range", rng.choice([0, 0, 1, -1, 5, -128, 127, 128, 255, 256, 65536]), MAX),
                                    ext, None)])
            return Constraint([(("range", MIN, rng.choice([0, 1, 127, 128, 255, 65535, -1, -129])), ext, None)])
        if shape == "wide":
            k = rng.choice([7, 8, 15, 16, 31, 32, 62, 63])
            lo = rng.choice([0, -(1 << k), -(1 << k) - 1, 1])
            hi = rng.choice([(1 << k) - 1, 1 << k, (1 << k) + 1])
            if p["unsigned64"] and rng.random() < 0.2:
                lo, hi = 0, rng.choice([(1 << 64) - 1, 1 << 63, (1 << 63) + 5])
            lo = max(lo_min, lo)
            hi = min(hi_max if not (p["unsigned64"] and lo >= 0) else (1 << 64) - 1, hi)
            return Constraint([(("range", lo, hi), ext, None)])
        if shape == "union" and p["union_constraints"]:
            a = rng.randrange(-50, 50)
            b = a + rng.randrange(0, 20)
            c = b + rng.randrange(2, 30)
            d = c + rng.randrange(0, 300)
            return Constraint([(("union", ("range", a, b), ("range", c, d)), ext, None)])
        # plain range around width boundaries
        width = rng.choice([1, 2, 3, 4, 7, 8, 9, 15, 16, 17, 24, 31, 32, 33, 40, 48, 56, 62])
        span = (1 << width) - 1 + rng.choice([-1, 0, 0, 1])
        span = max(0, span)
        lo = rng.choice([0, 0, 1, -1, -span // 2, rng.randrange(-1000, 1000), -(1 << 31), 1 << 16])
        if shape == "neg":
            lo = -span - rng.randrange(0, 5)
        lo = max(lo_min, lo)
        hi = min(hi_max, lo + span)
        return Constraint([(("range", lo, hi), ext, None)])

    def size_constraint(self, maxlen=None):
        rng, p = self.rng, self.p
        maxlen = maxlen or p["max_len"]
        ext = p["extensible"] and rng.random() < 0.25
        shape = rng.choice(["fixed", "range", "range", "semi", "zero"])
        if shape == "fixed":
            n = rng.choice([0, 1, 2, 3, 4, 7, 8, 9, 16, 17]) if rng.random() < 0.8 else rng.randrange(0, maxlen)
            return Constraint([(("val", min(n, maxlen)), ext, None)])
        if shape == "semi" and p["semi_constrained"]:
            return Constraint([(("range", rng.choice([0, 1, 2, 5]), MAX), ext, None)])
        if shape == "zero":
            return Constraint([(("range", 0, rng.choice([0, 1, 2, 3, 15, 16, 17, maxlen])), ext, None)])
        lo = rng.randrange(0, min(10, maxlen))
        hi = lo + rng.choice([0, 1, 2, 7, 8, 15, 16, 200, 255, 256, 65534, 65535, 65536, 70000])
        return Constraint([(("range", lo, hi), ext, None)])

    def alpha_constraint(self, kind):
        rng = self.rng
        uni = ALPHABET.get(kind)
        if uni is None:
            # BMP / Universal: ranges of code points
            lo = rng.choice([0x20, 0x41, 0x100, 0x3b1])
            hi = lo + rng.choice([1, 2, 3, 15, 16, 25, 63, 255])
            return Constraint([(("range", chr(lo), chr(hi)), False, None)])
        shape = rng.choice(["range", "list", "union"])
        if kind == "NumericString":
            shape = rng.choice(["range", "list"])
        if shape == "range":
            i = rng.randrange(0, len(uni) - 1)
            j = min(len(uni) - 1, i + rng.choice([0, 1, 2, 3, 7, 8, 15, 16, 25, 31, 32, 63]))
            # contiguous code points only
            lo, hi = uni[i], uni[j]
            if ord(hi) - ord(lo) != j - i:
                hi = chr(ord(lo))
            if lo in "\"'" or hi in "\"'":
                lo, hi = "0", "9"      # asn1c's lexer mis-tokenises ' and " inside cstrings (rejects, with diagnostic)
            return Constraint([(("range", lo, hi), False, None)])
        if shape == "list":
            n = rng.choice([1, 2, 3, 4, 5, 8, 9, 16, 17])
            chars = [c for c in uni if c.isalnum() or c == " "]
            s = "".join(sorted(set(rng.choice(chars) for _ in range(n))))
            return Constraint([(("val", s), False, None)])
        return Constraint([(("union", ("range", "A", rng.choice("BCDEFZ")),
                             ("range", "a", rng.choice("bcdefz"))), False, None)]) \
            if kind != "NumericString" else Constraint([(("range", "0", "9"), False, None)])

    def atom(self, kind=None):
        rng, p = self.rng, self.p
        k = kind or rng.choice(p["kinds"])
        t = Type(k)
        cons = p["constraints"]
        if k == "INTEGER":
            if cons and rng.random() < 0.75:
                t.value_c = self.int_constraint()
            elif rng.random() < 0.2:
                t.named = [("one", 1), ("two", 2), ("minus", -5)]
        elif k == "ENUMERATED":
            n = rng.choice([1, 2, 3, 4, 5, 8, 9, 17])
            vals = set()
            style = rng.choice(["seq", "sparse", "neg"])
            while len(vals) < n:
                if style == "seq":
                    vals.add(len(vals))
                elif style == "sparse":
                    vals.add(rng.choice([0, 1, 5, 127, 128, 255, 256, 65535, 70000, 1 << 30]) + len(vals) * 3)
                else:
                    vals.add(rng.randrange(-200, 200))
            vals = list(vals)
            rng.shuffle(vals)
            t.items = [("e%d" % i, v) for i, v in enumerate(vals)]
            if p["extensible"] and rng.random() < 0.35:
                t.ext_items = []
                if p["ext_additions"] and rng.random() < 0.7:
                    base = max(vals) + 1
                    m = rng.choice([1, 2, 3, 70])
                    t.ext_items = [("x%d" % i, base + i) for i in range(m)]
        elif k in ("BIT STRING", "OCTET STRING") or k in CHAR_KINDS:
            if cons and rng.random() < 0.6:
                t.size_c = self.size_constraint()
            if k in KM_KINDS and cons and p["alphabets"] and rng.random() < 0.4:
                t.alpha_c = self.alpha_constraint(k)
        return t

    # ------------------------------------------------------------ composites
    def member_type(self, depth, allow_recursive_to=None):
        """a component type: reference to an atom/composite or an inline type"""
        rng = self.rng
        r = rng.random()
        if r < 0.45 and self.atom_names:
            return Type("REF", ref=rng.choice(self.atom_names))
        if r < 0.6 and self.comp_names:
            return Type("REF", ref=rng.choice(self.comp_names))
        if r < 0.7 and depth < self.p["inline_depth"]:
            return self.composite(None, depth + 1)
        return self.atom()

    def composite(self, name, depth):
        rng, p = self.rng, self.p
        kinds = [k for k in p["composites"] if k != "SET" or p["set_type"]]
        k = rng.choice(kinds)
        if k in ("SEQUENCE OF", "SET OF"):
            t = Type(k, elem=self.member_type(depth))
            if t.elem.kind in ("SEQUENCE", "SET", "CHOICE", "SEQUENCE OF", "SET OF", "ENUMERATED"):
                # asn1c names every anonymous collection element "Member": a second one in the module is a
                # (documented) C name clash, so only the first stays inline, later ones become named types
                if getattr(self.mod, "_anon_member_used", False):
                    t.elem = Type("REF", ref=self._hoist(t.elem))
                else:
                    self.mod._anon_member_used = True
            if t.elem.kind in ("SEQUENCE OF", "SET OF") and t.elem.size_c is not None and not p.get("nested_of_size"):
                t.elem.size_c = None    # KF-C10: "X OF SET (SIZE(..)) OF Y" trips an assertion in the parser
            if p["constraints"] and rng.random() < 0.4:
                t.size_c = self.size_constraint(maxlen=6)
                # keep element counts small: clamp bounds used in values later
            if name and p["recursion"] and rng.random() < 0.1:
                t.elem = Type("REF", ref=name)
                t.size_c = None
            return t
        n = rng.choice([0, 1, 1, 2, 2, 3, 3, 4, 5, 7, 10, 12]) if k != "CHOICE" else rng.choice([1, 2, 2, 3, 4, 6, 9])
        optrun = k == "SEQUENCE" and rng.random() < 0.12
        if optrun:
            n = rng.choice([9, 10, 11, 13, 17])     # a long run of consecutive OPTIONAL members, then a mandatory one
        if k == "SET" and n == 0 and not p.get("empty_set"):
            n = 1       # KF-C10: "SET { ... }" / "SET { }" emits an empty enum (uncompilable)
        comps = []
        for i in range(n):
            mt = self.member_type(depth)
            # inline constructed/enumerated members get module-unique names: asn1c derives
            # C type names from them and (documented) needs -fcompound-names otherwise
            nm = "m%d" % i
            if mt.kind in ("SEQUENCE", "SET", "CHOICE", "SEQUENCE OF", "SET OF", "ENUMERATED") \
                    or (mt.kind in ("INTEGER", "BIT STRING") and mt.named):
                self.n += 1
                nm = "n%d" % self.n
            c = Comp(nm, mt)
            if optrun:
                c.optional = i < n - 1
            elif k != "CHOICE":
                r = rng.random()
                if r < 0.3:
                    c.optional = True
                elif r < 0.45 and p["defaults"]:
                    self.try_default(c)
            comps.append(c)
        t = Type(k, comps=comps)
        if p["extensible"] and rng.random() < 0.4:
            t.ext = []
            if p["ext_additions"] and rng.random() < 0.7:
                m = rng.choice([1, 1, 2, 3])
                for i in range(m):
                    mt = self.member_type(depth)
                    nm = "x%d" % i
                    if mt.kind in ("SEQUENCE", "SET", "CHOICE", "SEQUENCE OF", "SET OF", "ENUMERATED") \
                            or (mt.kind in ("INTEGER", "BIT STRING") and mt.named):
                        self.n += 1
                        nm = "y%d" % self.n
                    c = Comp(nm, mt)
                    if k != "CHOICE" and rng.random() < 0.5:
                        c.optional = True
                    t.ext.append(c)
            if p["second_root"] and k != "CHOICE" and rng.random() < 0.3:
                t.comps2 = [Comp("z0", self.member_type(depth))]
        if name and p["recursion"] and k != "SET" and rng.random() < 0.12:
            c = Comp("rec", Type("REF", ref=name))
            if k != "CHOICE":
                c.optional = True
            else:
                # make sure a CHOICE has a non-recursive alternative first
                if not t.comps:
                    t.comps.append(Comp("m0", self.atom("NULL")))
            t.comps.append(c)
        self.fix_tags(t)
        if k == "CHOICE" and t.ext:
            # X.680: the tags of CHOICE extension additions must be in canonical (ascending) order
            try:
                from .model import CLS_BITS
                probe = Module("P", self.mod.tagdefault)
                probe.types = dict(self.mod.types)
                probe.types["X"] = t
                probe.finalize()
                t.ext.sort(key=lambda c: min((CLS_BITS[cl], nu) for cl, nu in probe.outer_tags(c)))
                for c in t.all_comps():
                    c.autotag = None
            except (KeyError, ValueError):
                pass
        return t

    def try_default(self, c):
        rng = self.rng
        t = c.type
        rt = t
        while rt.kind == "REF":
            rt = self.mod.types.get(rt.ref)
            if rt is None:
                return
        if rt.kind == "BOOLEAN":
            c.has_default, c.default = True, rng.random() < 0.5
        elif rt.kind == "INTEGER":
            vals = [v for v in self.values(t, 4) if v >= 0 or self.p["neg_defaults"]]
            if vals:
                c.has_default, c.default = True, vals[0]
            else:
                c.optional = True
        elif rt.kind == "ENUMERATED":
            items = [it for it in rt.items if it[1] >= 0 or self.p["neg_defaults"]]
            if items:
                c.has_default, c.default = True, rng.choice(items)[1]
            else:
                c.optional = True
        else:
            c.optional = True

    def fix_tags(self, t):
        """make the component tags unambiguous per X.680 (using our own tag model)"""
        rng, mod = self.rng, self.mod
        comps = t.all_comps()
        if mod.tagdefault == "AUTOMATIC" and rng.random() < 0.85:
            return      # automatic tagging takes care (no component carries a tag)
        # manual tagging.  Style "natural": leave the components as they are when the model finds them
        # unambiguous (universal tags, untagged CHOICE members, tagged references ...); otherwise, or
        # with style "all", give every component a distinct context tag.
        if rng.random() < 0.4 and all(c.type.tag is None for c in comps):
            from ..checks import c11faults
            probe = Module("P", mod.tagdefault)
            probe.types = dict(mod.types)
            probe.types["X"] = t
            try:
                probe.finalize()
                ok = not c11faults.problems(probe)
            except (KeyError, ValueError, RecursionError):
                ok = False
            for c in comps:
                c.autotag = None
            if ok:
                return
        used = set()
        nums = list(range(len(comps)))
        if rng.random() < 0.3:
            rng.shuffle(nums)
        for i, c in enumerate(comps):
            num = nums[i] if rng.random() < 0.8 else rng.choice([40 + nums[i] * 37, 60 + nums[i], 124 + nums[i]])
            while num in used:
                num += 1
            used.add(num)
            if c.type.tag is None:
                c.type.tag = ("C", num, self.safe_mode(c.type))
            else:
                c.type = Type("REF", ref=self._hoist(c.type), tag=("C", num, "EXPLICIT"))

    def _hoist(self, t):
        nm = "H%d" % self.n
        self.n += 1
        self.mod.add(nm, t)
        return nm

    # ------------------------------------------------------------ values
    def values(self, t, n, depth=0):
        out = []
        for _ in range(n * 3):
            v = self.value(t, depth)
            if v is _NOVALUE:
                continue
            out.append(v)
            if len(out) >= n:
                break
        return out

    def length_for(self, t, unit_cap=None):
        """pick a length satisfying the SIZE constraint"""
        rng, p = self.rng, self.p
        specs = C.chain(self.mod, t, "size_c")
        cap = unit_cap or p["max_len"]
        root, ext = C.general_set(specs, C.IntSet([(0, None)]))
        if root.empty():
            return None
        cands = []
        for a, b in root.iv:
            hi = b if b is not None else a + cap
            cands += [a, hi, min(a + 1, hi), max(a, hi - 1), (a + hi) // 2]
            cands += [e for e in LEN_EDGES if a <= e <= hi]
        if ext and rng.random() < 0.25:
            # out-of-root length
            cands = [x for x in (root.lb() - 1 if root.lb() else None, (root.ub() + 1) if root.ub() is not None else None)
                     if x is not None and x >= 0] or cands
        limit = cap if not (p["long_values"] and rng.random() < 0.15) else 70000
        c2 = [c for c in cands if c <= limit]
        if not c2:
            # constraint demands more than the cap: honour the constraint
            c2 = [min(cands)]
        return rng.choice(c2)

    def value(self, t, depth=0):
        rng, p, mod = self.rng, self.p, self.mod
        rt = mod.resolve(t)
        k = rt.kind
        if k == "BOOLEAN":
            return rng.random() < 0.5
        if k == "NULL":
            return None
        if k == "INTEGER":
            specs = C.chain(mod, t, "value_c")
            root, ext = C.general_set(specs)
            base = C.IntSet([(p["int_min"], p["int_max"])])
            if p["unsigned64"] and root.lb() is not None and root.lb() >= 0:
                base = C.IntSet([(0, (1 << 64) - 1)])
            if ext and rng.random() < 0.3:
                dom = base.minus(root) if not root.empty() else base
                if dom.empty():
                    dom = base.inter(root)
            else:
                dom = base.inter(root)
            if dom.empty():
                return _NOVALUE
            cands = []
            for a, b in dom.iv:
                cands += [a, b, min(a + 1, b), max(a, b - 1), (a + b) // 2, rng.randint(a, b)]
                cands += [e for e in INT_EDGES if a <= e <= b][:: max(1, len(INT_EDGES) // 12)]
                if a <= 0 <= b:
                    cands += [0, 0]
            return rng.choice(cands)
        if k == "ENUMERATED":
            items = list(rt.items)
            if rt.ext_items:
                items += rt.ext_items
            return rng.choice(items)[1]
        if k == "REAL" and p["real_decimal15"]:
            return rng.choice([0.0, 1.0, -1.0, 0.5, 2.0, 3.0, -0.25, 1024.0, 123456.0, -65536.0, 0.125, 1e15, -3.5,
                               float(rng.randrange(-1000000, 1000000)), rng.randrange(-4096, 4096) / 64.0,
                               math.inf, -math.inf])
        if k == "REAL":
            r = rng.random()
            if r < 0.25 and p["real_special"]:
                return rng.choice([0.0, -0.0, math.inf, -math.inf, 1.0, -1.0, 0.5, 2.0 ** -1074, 2.0 ** 1023,
                                   1.7976931348623157e308, 5e-324, 2.2250738585072014e-308, 3.0, 0.1, -0.1,
                                   123456789.0, 1e100, 2.0 ** 52, 2.0 ** 53 - 1])
            if r < 0.5:
                return float(rng.randrange(-100000, 100000)) / rng.choice([1, 2, 4, 8, 1024])
            bits = rng.getrandbits(64)
            d = struct.unpack(">d", struct.pack(">Q", bits))[0]
            if d != d:
                return 1.5
            return d
        if k == "BIT STRING":
            n = self.length_for(t)
            if n is None:
                return _NOVALUE
            nbytes = (n + 7) // 8
            data = bytearray(rng.getrandbits(8) for _ in range(nbytes))
            if n % 8 and data:
                data[-1] &= (0xff << (8 - n % 8)) & 0xff
            if (rt.named or p["bit_trailing_one"]) and n:
                # avoid trailing-zero ambiguity of named bit lists: make last bit 1
                data[(n - 1) // 8] |= 0x80 >> ((n - 1) % 8)
            return (bytes(data), n)
        if k == "OCTET STRING":
            n = self.length_for(t)
            if n is None:
                return _NOVALUE
            return bytes(rng.getrandbits(8) for _ in range(n))
        if k in CHAR_KINDS:
            n = self.length_for(t)
            if n is None:
                return _NOVALUE
            alpha, aext = C.alphabet(mod, t, k)
            if alpha is None:
                if k == "UTF8String":
                    alpha = "az AZ09éÿĀ߿ࠀ€￿\U00010000\U0010ffff<>&\"'"
                elif k == "BMPString":
                    alpha = "az AZ09éĀ€￿\u0001<>&" if not p["wide_plain"] else "azAZ09"
                elif k == "UniversalString":
                    alpha = "az AZ09éĀ€￿\U00010000\U0010ffff<>&" if not p["wide_plain"] else "azAZ09"
                else:
                    alpha = ALPHABET[k]
                    if k in ("IA5String",):
                        # mostly printable, sometimes control characters
                        if rng.random() < 0.8:
                            alpha = ALPHABET["VisibleString"]
            if alpha == "":
                return "" if n == 0 else _NOVALUE
            if rng.random() < 0.3:
                # extremes of the alphabet
                pool = alpha[0] + alpha[-1]
            else:
                pool = alpha
            return "".join(rng.choice(pool) for _ in range(n))
        if k == "OBJECT IDENTIFIER":
            a0 = rng.choice([0, 1, 2])
            a1 = rng.choice([0, 1, 39]) if a0 < 2 else rng.choice([0, 39, 40, 47, 48, 999, 16383])
            rest = [rng.choice([0, 1, 127, 128, 16383, 16384, 2097151, 2097152, (1 << 28) - 1, 1 << 28,
                                (1 << 32) - 1, rng.randrange(0, 100000)]) for _ in range(rng.choice([0, 1, 2, 5, 12]))]
            return tuple([a0, a1] + rest)
        if k == "RELATIVE-OID":
            return tuple(rng.choice([0, 1, 127, 128, 16383, 16384, (1 << 32) - 1, rng.randrange(0, 100000)])
                         for _ in range(rng.choice([1, 2, 5])))
        if k == "UTCTime":
            y = rng.choice([0, 1, 49, 50, 69, 70, 99, rng.randrange(0, 100)])
            return "%02d%02d%02d%02d%02d%02dZ" % (y, rng.randrange(1, 13), rng.randrange(1, 29),
                                                 rng.randrange(0, 24), rng.randrange(0, 60), rng.randrange(0, 60))
        if k == "GeneralizedTime":
            y = rng.choice([1970, 1971, 2000, 2037, 2038, 2039, 2100, rng.randrange(1971, 2200)])
            s = "%04d%02d%02d%02d%02d%02d" % (y, rng.randrange(1, 13), rng.randrange(1, 29),
                                               rng.randrange(0, 24), rng.randrange(0, 60), rng.randrange(0, 60))
            if rng.random() < 0.3:
                frac = str(rng.randrange(1, 1000)).rstrip("0")
                if frac:
                    s += "." + frac
            return s + "Z"
        if k in ("SEQUENCE", "SET"):
            if depth > 6:
                # only mandatory components
                pass
            v = {}
            nopt = sum(1 for c in rt.all_comps() if c.optional or c.has_default)
            skip_p = 0.45
            if nopt > 8:
                skip_p = rng.choice([0.45, 0.9, 0.97])      # sparse presence: long gaps of absent OPTIONAL members
            for c in rt.all_comps():
                in_ext = rt.ext is not None and c in rt.ext
                must = not (c.optional or c.has_default) and not in_ext
                crt = mod.resolve(c.type)
                recursive = depth > 3
                if not must:
                    if recursive or rng.random() < skip_p:
                        continue
                if c.has_default and rng.random() < 0.4:
                    v[c.name] = c.default
                    continue
                cv = self.value(c.type, depth + 1)
                if cv is _NOVALUE:
                    if must:
                        return _NOVALUE
                    continue
                v[c.name] = cv
            return v
        if k == "CHOICE":
            alts = rt.all_comps()
            if depth > 3:
                # prefer non-recursive alternatives
                alts = [a for a in alts if a.name != "rec"] or alts
            for _ in range(6):
                c = rng.choice(alts)
                cv = self.value(c.type, depth + 1)
                if cv is not _NOVALUE:
                    return (c.name, cv)
            return _NOVALUE
        if k in ("SEQUENCE OF", "SET OF"):
            n = self.length_for(t, unit_cap=5 if depth < 2 else 2)
            if n is None:
                return _NOVALUE
            if depth > 3:
                specs = C.chain(mod, t, "size_c")
                root, ext = C.general_set(specs, C.IntSet([(0, None)]))
                n = root.lb() or 0
            if n > 300:
                return _NOVALUE
            out = []
            for _ in range(n):
                ev = self.value(rt.elem, depth + 1)
                if ev is _NOVALUE:
                    return _NOVALUE
                out.append(ev)
            return out
        raise ValueError(k)


class _NoValue:
    def __repr__(self):
        return "NOVALUE"


_NOVALUE = _NoValue()
NOVALUE = _NOVALUE


def _set_module(t, mod, seen=None):
    seen = seen if seen is not None else set()
    if id(t) in seen:
        return
    seen.add(id(t))
    t.module = mod
    if t.kind in ("SEQUENCE", "SET", "CHOICE"):
        for c in t.all_comps():
            _set_module(c.type, mod, seen)
    elif t.kind in ("SEQUENCE OF", "SET OF"):
        _set_module(t.elem, mod, seen)


def value_repr(v, limit=200):
    s = repr(v)
    return s if len(s) <= limit else s[:limit] + "..."
