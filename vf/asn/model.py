"""ASN.1 type AST, module text printer, tag algebra (X.680) -- the independent
reference model's view of a specification.  Written from the standards, not
from the asn1c sources."""

UNIVERSAL_TAG = {
    "BOOLEAN": 1, "INTEGER": 2, "BIT STRING": 3, "OCTET STRING": 4, "NULL": 5,
    "OBJECT IDENTIFIER": 6, "REAL": 9, "ENUMERATED": 10, "UTF8String": 12,
    "RELATIVE-OID": 13, "SEQUENCE": 16, "SEQUENCE OF": 16, "SET": 17, "SET OF": 17,
    "NumericString": 18, "PrintableString": 19, "IA5String": 22, "UTCTime": 23,
    "GeneralizedTime": 24, "VisibleString": 26, "UniversalString": 28, "BMPString": 30,
}
STRING_KINDS = ("OCTET STRING", "UTF8String", "NumericString", "PrintableString", "IA5String",
                "VisibleString", "UniversalString", "BMPString", "UTCTime", "GeneralizedTime", "BIT STRING")
CHAR_KINDS = ("UTF8String", "NumericString", "PrintableString", "IA5String", "VisibleString",
              "UniversalString", "BMPString")
KM_KINDS = ("NumericString", "PrintableString", "IA5String", "VisibleString", "UniversalString", "BMPString")
CONSTRUCTED_KINDS = ("SEQUENCE", "SEQUENCE OF", "SET", "SET OF")

ALPHABET = {
    "NumericString": " 0123456789",
    "PrintableString": " '()+,-./0123456789:=?ABCDEFGHIJKLMNOPQRSTUVWXYZabcdefghijklmnopqrstuvwxyz",
    "IA5String": "".join(chr(i) for i in range(128)),
    "VisibleString": "".join(chr(i) for i in range(32, 127)),
}
CLS_NAME = {"U": "UNIVERSAL", "A": "APPLICATION", "C": "", "P": "PRIVATE"}
CLS_BITS = {"U": 0, "A": 1, "C": 2, "P": 3}

MIN = "MIN"
MAX = "MAX"


class Constraint:
    """Value or SIZE constraint: a list of serially applied specs.  Each spec is
    (root_tree, ext) where ext is None (not extensible) or a tree/None-in-list
    for the additions:  tree ::= ('val', v) | ('range', lo, hi) | ('union', a, b)
    | ('inter', a, b) | ('except', a, b) | ('all',)"""

    def __init__(self, specs):
        self.specs = specs   # list of (tree, extensible(bool), additions tree or None)

    @staticmethod
    def simple(lo, hi, ext=False):
        if lo == hi and lo not in (MIN, MAX):
            return Constraint([(("val", lo), ext, None)])
        return Constraint([(("range", lo, hi), ext, None)])

    def text(self, size=False, alpha=False):
        return "".join(self._spec_text(s, size, alpha) for s in self.specs)

    def _spec_text(self, s, size, alpha):
        tree, ext, add = s
        body = tree_text(tree)
        if ext:
            body += ", ..."
            if add is not None:
                body += ", " + tree_text(add)
        if size:
            return " (SIZE(%s))" % body
        if alpha:
            return " (FROM(%s))" % body
        return " (%s)" % body


def _v(v):
    if isinstance(v, str) and v not in (MIN, MAX):
        return '"%s"' % v.replace('"', '""')
    return str(v)


def tree_text(t):
    k = t[0]
    if k == "val":
        return _v(t[1])
    if k == "range":
        return "%s..%s" % (_v(t[1]), _v(t[2]))
    if k == "union":
        return "%s | %s" % (tree_text_p(t[1]), tree_text_p(t[2]))
    if k == "inter":
        return "%s ^ %s" % (tree_text_p(t[1]), tree_text_p(t[2]))
    if k == "except":
        return "%s EXCEPT %s" % (tree_text_p(t[1]), tree_text_p(t[2]))
    if k == "allexcept":
        return "ALL EXCEPT %s" % tree_text_p(t[1])
    if k == "incl":
        # contained subtype: ('incl', type name, value set of that type's root, spelled with INCLUDES or not)
        return ("INCLUDES " if len(t) > 3 and t[3] else "") + t[1]
    raise ValueError(k)


def tree_text_p(t):
    if t[0] in ("val", "range", "incl"):
        return tree_text(t)
    return "(" + tree_text(t) + ")"


class Comp:
    def __init__(self, name, type, optional=False, default=None, has_default=False):
        self.name = name
        self.type = type
        self.optional = optional
        self.has_default = has_default
        self.default = default
        self.autotag = None      # number when automatic tagging applies


class Type:
    def __init__(self, kind, **kw):
        self.kind = kind
        self.tag = kw.pop("tag", None)          # (cls, num, mode|None)
        self.value_c = kw.pop("value_c", None)  # Constraint on value (INTEGER)
        self.size_c = kw.pop("size_c", None)    # Constraint on SIZE
        self.alpha_c = kw.pop("alpha_c", None)  # Constraint on alphabet (FROM)
        self.named = kw.pop("named", None)      # INTEGER named numbers / BIT STRING named bits
        self.items = kw.pop("items", None)      # ENUMERATED root [(name,val)]
        self.ext_items = kw.pop("ext_items", None)  # ENUMERATED additions or None
        self.comps = kw.pop("comps", None)      # root components (SEQUENCE/SET/CHOICE)
        self.ext = kw.pop("ext", None)          # None or list of addition Comps
        self.comps2 = kw.pop("comps2", None)    # second root part (after 2nd marker)
        self.elem = kw.pop("elem", None)        # OF element type
        self.elem_name = kw.pop("elem_name", None)
        self.ref = kw.pop("ref", None)          # REF: name
        self.module = None
        if kw:
            raise TypeError(kw)

    def all_comps(self):
        return list(self.comps or []) + list(self.ext or []) + list(self.comps2 or [])


class Module:
    def __init__(self, name, tagdefault="EXPLICIT", extimplied=False):
        self.name = name
        self.tagdefault = tagdefault   # EXPLICIT | IMPLICIT | AUTOMATIC
        self.types = {}                # name -> Type (ordered)
        self.imports = []              # (names, module)
        self.finalized = False

    def add(self, name, t):
        self.types[name] = t
        return t

    # -------------------------------------------------------------- text
    def text(self):
        hdr = {"EXPLICIT": "EXPLICIT TAGS ", "IMPLICIT": "IMPLICIT TAGS ", "AUTOMATIC": "AUTOMATIC TAGS ",
               None: ""}[self.tagdefault]
        out = ["%s DEFINITIONS %s::= BEGIN" % (self.name, hdr), ""]
        if self.imports:
            out.append("IMPORTS " + " ".join("%s FROM %s" % (", ".join(n), m) for n, m in self.imports) + ";")
        for name, t in self.types.items():
            out.append("%s ::= %s" % (name, type_text(t, 0)))
            out.append("")
        out.append("END")
        return "\n".join(out) + "\n"

    # -------------------------------------------------------------- resolve
    def resolve(self, t):
        """follow references (keeping nothing of the ref node but its tag handled by callers)"""
        seen = 0
        while t.kind == "REF":
            t = self.types[t.ref]
            seen += 1
            if seen > 100:
                raise ValueError("reference loop")
        return t

    def finalize(self):
        """apply automatic tagging decisions"""
        seen = set()

        def visit(t):
            if id(t) in seen:
                return
            seen.add(id(t))
            if t.kind in ("SEQUENCE", "SET", "CHOICE"):
                comps = t.all_comps()
                if self.tagdefault == "AUTOMATIC" and not any(c.type.tag for c in comps):
                    # X.680: root components (both parts) first, then additions
                    order = list(t.comps or []) + list(t.comps2 or []) + list(t.ext or [])
                    for i, c in enumerate(order):
                        c.autotag = i
                for c in comps:
                    visit(c.type)
            elif t.kind in ("SEQUENCE OF", "SET OF"):
                visit(t.elem)
        for t in self.types.values():
            visit(t)
        self.finalized = True

    # -------------------------------------------------------------- tags
    def is_untagged_choice(self, t):
        """True if t (with its own tags) has an empty tag chain: an untagged CHOICE"""
        return len(self.tag_chain(t)) == 0

    def tag_chain(self, t, _depth=0):
        """list of (cls, num) outermost first.  Empty for untagged CHOICE."""
        if _depth > 100:
            raise ValueError("tag recursion")
        if t.kind == "REF":
            inner = self.tag_chain(self.types[t.ref], _depth + 1)
        elif t.kind == "CHOICE":
            inner = []
        else:
            inner = [("U", UNIVERSAL_TAG[t.kind])]
        if t.tag:
            cls, num, mode = t.tag
            inner = self._apply_tag(cls, num, mode, inner)
        return inner

    def _apply_tag(self, cls, num, mode, inner):
        if mode is None:
            mode = "EXPLICIT" if self.tagdefault == "EXPLICIT" else "IMPLICIT"
        if mode == "IMPLICIT" and inner:
            return [(cls, num)] + inner[1:]
        return [(cls, num)] + inner

    def comp_chain(self, c):
        inner = self.tag_chain(c.type)
        if c.autotag is not None:
            return self._apply_tag("C", c.autotag, "IMPLICIT", inner)
        return inner

    def outer_tags(self, c_or_t, is_comp=True, _depth=0):
        """set of possible outermost tags (looking through untagged CHOICE)"""
        if _depth > 50:
            return set()
        if is_comp:
            ch = self.comp_chain(c_or_t)
            t = c_or_t.type
        else:
            ch = self.tag_chain(c_or_t)
            t = c_or_t
        if ch:
            return {ch[0]}
        # untagged choice: union over alternatives
        rt = self.resolve(t)
        s = set()
        for a in rt.all_comps():
            s |= self.outer_tags(a, True, _depth + 1)
        return s


def tag_text(tag):
    cls, num, mode = tag
    s = "[%s%s%d]" % (CLS_NAME[cls], " " if CLS_NAME[cls] else "", num)
    if mode:
        s += " " + mode
    return s + " "


def value_text(t, v, mod=None):
    """ASN.1 value notation for DEFAULT"""
    k = t.kind
    if k == "REF" and mod is not None:
        return value_text(mod.resolve(t), v, mod)
    if k == "BOOLEAN":
        return "TRUE" if v else "FALSE"
    if k == "INTEGER":
        return str(v)
    if k == "ENUMERATED":
        for n, val in (t.items + (t.ext_items or [])):
            if val == v:
                return n
        raise ValueError("enum")
    if k == "NULL":
        return "NULL"
    if k in CHAR_KINDS:
        return '"%s"' % v.replace('"', '""')
    if k == "OCTET STRING":
        return "'%s'H" % v.hex().upper()
    if k == "BIT STRING":
        data, nbits = v
        bits = "".join("1" if data[i // 8] & (0x80 >> (i % 8)) else "0" for i in range(nbits))
        return "'%s'B" % bits
    if k == "REAL":
        if v == 0:
            return "0"
        return repr(v)
    raise ValueError("no value notation for " + k)


def type_text(t, ind, mod=None):
    pad = "    " * (ind + 1)
    s = tag_text(t.tag) if t.tag else ""
    k = t.kind
    if k == "REF":
        s += t.ref
        if t.value_c:
            s += t.value_c.text()
        if t.size_c:
            s += t.size_c.text(size=True)
        if t.alpha_c:
            s += t.alpha_c.text(alpha=True)
        return s
    if k == "INTEGER":
        s += "INTEGER"
        if t.named:
            s += " { " + ", ".join("%s(%d)" % nv for nv in t.named) + " }"
        if t.value_c:
            s += t.value_c.text()
        return s
    if k == "ENUMERATED":
        items = ["%s(%d)" % nv if nv[1] is not None else nv[0] for nv in t.items]
        if t.ext_items is not None:
            items.append("...")
            items += ["%s(%d)" % nv for nv in t.ext_items]
        return s + "ENUMERATED { " + ", ".join(items) + " }"
    if k == "BIT STRING":
        s += "BIT STRING"
        if t.named:
            s += " { " + ", ".join("%s(%d)" % nv for nv in t.named) + " }"
        if t.size_c:
            s += t.size_c.text(size=True)
        return s
    if k in ("SEQUENCE OF", "SET OF"):
        head = k.split()[0]
        if t.size_c:
            head += t.size_c.text(size=True)
        en = (t.elem_name + " ") if t.elem_name else ""
        return s + head + " OF " + en + type_text(t.elem, ind)
    if k in ("SEQUENCE", "SET", "CHOICE"):
        parts = []

        def ctext(c):
            x = "%s %s" % (c.name, type_text(c.type, ind + 1))
            if c.optional:
                x += " OPTIONAL"
            elif c.has_default:
                x += " DEFAULT " + value_text(c.type, c.default, t.module)
            return x
        for c in t.comps:
            parts.append(ctext(c))
        if t.ext is not None:
            parts.append("...")
            for c in t.ext:
                parts.append(ctext(c))
            if t.comps2 is not None:
                parts.append("...")
                for c in t.comps2:
                    parts.append(ctext(c))
        if not parts:
            return s + k + " { }"
        return s + k + " {\n" + ",\n".join(pad + p for p in parts) + "\n" + "    " * ind + "}"
    # simple and string kinds
    s += k
    if t.size_c:
        s += t.size_c.text(size=True)
    if t.alpha_c:
        s += t.alpha_c.text(alpha=True)
    if t.value_c:
        s += t.value_c.text()
    return s


# ---------------------------------------------------------------------------
# effective constraints (simple evaluation for the encoders; the full algebra
# for C08/C09 is in constraints.py)
def walk_types(mod, fn):
    seen = set()

    def visit(t, path):
        if id(t) in seen:
            return
        seen.add(id(t))
        fn(t, path)
        if t.kind in ("SEQUENCE", "SET", "CHOICE"):
            for c in t.all_comps():
                visit(c.type, path + [c.name])
        elif t.kind in ("SEQUENCE OF", "SET OF"):
            visit(t.elem, path + ["*"])
    for n, t in mod.types.items():
        visit(t, [n])
