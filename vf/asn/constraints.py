"""Constraint algebra of the reference model (X.680 value sets; X.691 10.3
PER-visible and X.696 8.2 OER-visible reductions).  Independent of asn1c."""
from .model import MIN, MAX, ALPHABET


class IntSet:
    """finite union of closed integer intervals; None = infinite bound"""
    __slots__ = ("iv",)

    def __init__(self, iv=()):
        self.iv = self._norm(list(iv))

    @staticmethod
    def _norm(iv):
        iv = [(a, b) for a, b in iv if a is None or b is None or a <= b]
        iv.sort(key=lambda x: (x[0] is not None, x[0] if x[0] is not None else 0))
        out = []
        for a, b in iv:
            if out:
                pa, pb = out[-1]
                if pb is None or (a is not None and a <= pb + 1) or a is None:
                    nb = None if (pb is None or b is None) else max(pb, b)
                    out[-1] = (pa, nb)
                    continue
            out.append((a, b))
        return out

    @staticmethod
    def all():
        return IntSet([(None, None)])

    def empty(self):
        return not self.iv

    def lb(self):
        return self.iv[0][0] if self.iv else None

    def ub(self):
        return self.iv[-1][1] if self.iv else None

    def contains(self, v):
        for a, b in self.iv:
            if (a is None or a <= v) and (b is None or v <= b):
                return True
        return False

    def union(self, o):
        return IntSet(self.iv + o.iv)

    def inter(self, o):
        out = []
        for a, b in self.iv:
            for c, d in o.iv:
                lo = c if a is None else (a if c is None else max(a, c))
                hi = d if b is None else (b if d is None else min(b, d))
                if lo is None or hi is None or lo <= hi:
                    out.append((lo, hi))
        return IntSet(out)

    def complement(self):
        out = []
        prev = None     # previous upper bound (None = start at -inf)
        start_inf = True
        for a, b in self.iv:
            if a is not None:
                out.append((None if start_inf else prev + 1, a - 1))
            start_inf = False
            if b is None:
                return IntSet(out)
            prev = b
        out.append((None if start_inf else prev + 1, None))
        return IntSet(out)

    def minus(self, o):
        return self.inter(o.complement())

    def __eq__(self, o):
        return self.iv == o.iv

    def __repr__(self):
        return "IntSet(%r)" % (self.iv,)


def _bound(v, parent, lo):
    if v == MIN:
        return parent.lb()
    if v == MAX:
        return parent.ub()
    return v


def eval_tree(tree, parent, drop_except=False):
    """value set of a constraint tree; MIN/MAX relative to parent (an IntSet)"""
    k = tree[0]
    if k == "val":
        return IntSet([(tree[1], tree[1])])
    if k == "range":
        return IntSet([(_bound(tree[1], parent, True), _bound(tree[2], parent, False))])
    if k == "union":
        return eval_tree(tree[1], parent, drop_except).union(eval_tree(tree[2], parent, drop_except))
    if k == "inter":
        return eval_tree(tree[1], parent, drop_except).inter(eval_tree(tree[2], parent, drop_except))
    if k == "except":
        a = eval_tree(tree[1], parent, drop_except)
        if drop_except:
            return a
        return a.minus(eval_tree(tree[2], parent, drop_except))
    if k == "allexcept":
        if drop_except:
            return parent
        return parent.minus(eval_tree(tree[1], parent, drop_except))
    if k == "incl":
        # contained subtype (X.680 51.3): the values of the named type; its extension marker is not inherited
        return tree[2].inter(parent)
    raise ValueError(k)


def chain(mod, t, which):
    """constraint specs of one kind from the base type outward (serial order).
    X.680 50.8: a constraint applied serially to an extensible parent acts on the
    parent *without* its extension marker and additions, whatever the kind of the
    later constraint -- so a spec keeps its marker only when nothing at all
    (size, alphabet or value constraint) is applied after it."""
    nodes = []
    seen = 0
    while True:
        nodes.append(t)
        if t.kind != "REF":
            break
        t = mod.types[t.ref]
        seen += 1
        if seen > 100:
            raise ValueError("loop")
    ordered = []        # (kind, spec) in order of application (textual order on one node: SIZE, FROM, value)
    for n in reversed(nodes):
        for kind in ("size_c", "alpha_c", "value_c"):
            c = getattr(n, kind)
            if c is not None:
                ordered.extend((kind, sp) for sp in c.specs)
    specs = []
    for i, (kind, sp) in enumerate(ordered):
        if kind != which:
            continue
        if i < len(ordered) - 1 and sp[1]:
            sp = (sp[0], False, None)
        specs.append(sp)
    return specs


def general_set(specs, base=None):
    """X.680 semantics: (root set, extensible).  An extensible constraint in the
    chain means 'anything may be sent' for validation purposes."""
    cur = base if base is not None else IntSet.all()
    ext = False
    for tree, e, add in specs:
        s = eval_tree(tree, cur)
        cur = cur.inter(s)
        ext = bool(e)
    return cur, ext


def per_visible(specs, base=None):
    """X.691 10.3 -> (lb, ub, extensible, root IntSet) ; None bounds = unbounded"""
    cur = base if base is not None else IntSet.all()
    ext = False
    for tree, e, add in specs:
        s = eval_tree(tree, cur, drop_except=True)
        cur = cur.inter(s)
        ext = bool(e)       # extensibility of the last constraint only
    return cur.lb(), cur.ub(), ext, cur


def oer_visible(specs, base=None):
    """X.696 8.2: extensible constraints are not OER-visible (treated as absent)."""
    cur = base if base is not None else IntSet.all()
    for tree, e, add in specs:
        if e:
            continue
        s = eval_tree(tree, cur, drop_except=True)
        cur = cur.inter(s)
    return cur.lb(), cur.ub(), cur


# ------------------------------------------------------------------ alphabets
def alpha_eval(tree, universe):
    k = tree[0]
    if k == "val":
        return set(tree[1])
    if k == "range":
        lo = universe[0] if tree[1] == MIN else tree[1]
        hi = universe[-1] if tree[2] == MAX else tree[2]
        return set(chr(c) for c in range(ord(lo), ord(hi) + 1))
    if k == "union":
        return alpha_eval(tree[1], universe) | alpha_eval(tree[2], universe)
    if k == "inter":
        return alpha_eval(tree[1], universe) & alpha_eval(tree[2], universe)
    if k == "except":
        return alpha_eval(tree[1], universe) - alpha_eval(tree[2], universe)
    raise ValueError(k)


def alphabet(mod, t, kind):
    """(effective permitted alphabet as sorted string or None, extensible)"""
    specs = chain(mod, t, "alpha_c")
    if kind in ALPHABET:
        uni = ALPHABET[kind]
        cur = set(uni)
    else:
        uni = None
        cur = None
    ext = False
    any_c = False
    for tree, e, add in specs:
        any_c = True
        s = alpha_eval(tree, uni or [chr(0), chr(0x10ffff)])
        cur = s if cur is None else (cur & s)
        ext = bool(e)
    if not any_c:
        return None, False
    return "".join(sorted(cur)), ext
