"""Reference encoder for canonical unaligned PER (X.691), written from the
standard.  encode() returns bytes, or None when the value/type is outside the
subset this reference defines (time types, SET, open types by object sets)."""
from . import constraints as C
from .model import ALPHABET, KM_KINDS, CLS_BITS
from .der import int_octets, real_octets, oid_octets, string_octets, values_equal


class Unsupported(Exception):
    pass


class RawOpen:
    """value of an open-type component given as its complete (octet aligned) encoding"""
    def __init__(self, data):
        self.data = bytes(data)


class Bits:
    def __init__(self):
        self.v = 0
        self.n = 0

    def put(self, value, nbits):
        if nbits:
            self.v = (self.v << nbits) | (value & ((1 << nbits) - 1))
            self.n += nbits

    def put_bytes(self, b):
        for x in b:
            self.put(x, 8)

    def put_bits_of(self, data, nbits):
        """first nbits of data (MSB first)"""
        full, rem = divmod(nbits, 8)
        for x in data[:full]:
            self.put(x, 8)
        if rem:
            self.put(data[full] >> (8 - rem), rem)

    def extend(self, other):
        self.put(other.v, other.n)

    def tobytes(self, min_one=False):
        n = self.n
        pad = (-n) % 8
        v = self.v << pad
        out = v.to_bytes((n + pad) // 8, "big") if n else b""
        if not out and min_one:
            return b"\x00"
        return out


def put_length(b, n):
    """unconstrained length determinant (10.9.3.5-10.9.3.8) for n < 16K; caller handles fragmentation"""
    if n < 128:
        b.put(n, 8)
    elif n < 16384:
        b.put(0x8000 | n, 16)
    else:
        raise ValueError("fragment")


def put_fragmented(b, n, emit):
    """length determinant with 16K fragmentation; emit(bits, start, count) writes items"""
    pos = 0
    while n - pos >= 16384:
        m = min((n - pos) // 16384, 4)
        b.put(0xC0 | m, 8)
        emit(b, pos, m * 16384)
        pos += m * 16384
    put_length(b, n - pos)
    emit(b, pos, n - pos)


def put_constrained(b, v, lb, ub):
    r = ub - lb + 1
    if r == 1:
        return
    b.put(v - lb, (r - 1).bit_length())


def put_nsnnwn(b, n):
    """normally small non-negative whole number (10.6)"""
    if n <= 63:
        b.put(0, 1)
        b.put(n, 6)
    else:
        b.put(1, 1)
        o = n.to_bytes(max(1, (n.bit_length() + 7) // 8), "big")
        put_length(b, len(o))
        b.put_bytes(o)


def put_nslength(b, n):
    """normally small length (10.9.3.4), n >= 1"""
    if n <= 64:
        b.put(0, 1)
        b.put(n - 1, 6)
    else:
        b.put(1, 1)
        put_length(b, n)


def put_open(b, inner):
    """open type: octet-aligned complete encoding preceded by its length in octets"""
    data = inner.tobytes(min_one=True)
    put_fragmented(b, len(data), lambda bb, s, c: bb.put_bytes(data[s:s + c]))


def size_info(mod, t):
    specs = C.chain(mod, t, "size_c")
    if not specs:
        return None
    lb, ub, ext, root = C.per_visible(specs, C.IntSet([(0, None)]))
    return lb, ub, ext, root


def put_counted(b, mod, t, n, emit):
    """length per SIZE constraint then items"""
    si = size_info(mod, t)
    if si is None:
        put_fragmented(b, n, emit)
        return
    lb, ub, ext, root = si
    lb = lb or 0
    if ext:
        # X.691 16.6/17.3/20.4/30.4: the bit says whether the length is "within the range of the extension root" (lb..ub)
        inroot = lb <= n and (ub is None or n <= ub)
        b.put(0 if inroot else 1, 1)
        if not inroot:
            put_fragmented(b, n, emit)
            return
    if ub is not None and ub < 65536:
        if lb != ub:
            put_constrained(b, n, lb, ub)
        emit(b, 0, n)
    else:
        put_fragmented(b, n, emit)


BUILTIN_BITS = {"BMPString": 16, "UniversalString": 32}


class Encoder:
    def __init__(self, mod, extra_additions=None):
        self.mod = mod
        # 'version 2' sender: {id(type node): number of extra unknown additions to append}
        self.extra = extra_additions or {}

    def encode(self, t, v):
        b = Bits()
        self.enc(b, t, v)
        return b.tobytes(min_one=True)

    def enc(self, b, t, v):
        mod = self.mod
        rt = mod.resolve(t)
        k = rt.kind
        if k == "BOOLEAN":
            b.put(1 if v else 0, 1)
        elif k == "NULL":
            pass
        elif k == "INTEGER":
            self.enc_integer(b, t, v)
        elif k == "ENUMERATED":
            root = sorted(val for n, val in rt.items)
            if rt.ext_items is not None:
                inroot = v in root
                b.put(0 if inroot else 1, 1)
                if not inroot:
                    adds = [val for n, val in rt.ext_items]
                    put_nsnnwn(b, adds.index(v))
                    return
            put_constrained(b, root.index(v), 0, len(root) - 1)
        elif k == "REAL":
            o = real_octets(v)
            put_fragmented(b, len(o), lambda bb, s, c: bb.put_bytes(o[s:s + c]))
        elif k == "BIT STRING":
            data, nbits = v
            def emit(bb, s, c):
                # s, c in bits; s is a multiple of 16K (hence of 8)
                bb.put_bits_of(data[s // 8:], c)
            put_counted(b, mod, t, nbits, emit)
        elif k == "OCTET STRING":
            put_counted(b, mod, t, len(v), lambda bb, s, c: bb.put_bytes(v[s:s + c]))
        elif k in KM_KINDS:
            self.enc_kmstring(b, t, rt, v)
        elif k in ("UTF8String",):
            o = string_octets(k, v)
            put_fragmented(b, len(o), lambda bb, s, c: bb.put_bytes(o[s:s + c]))
        elif k in ("OBJECT IDENTIFIER", "RELATIVE-OID"):
            o = oid_octets(v, relative=(k == "RELATIVE-OID"))
            put_fragmented(b, len(o), lambda bb, s, c: bb.put_bytes(o[s:s + c]))
        elif k == "SEQUENCE":
            self.enc_sequence(b, t, rt, v)
        elif k == "CHOICE":
            self.enc_choice(b, t, rt, v)
        elif k in ("SEQUENCE OF", "SET OF"):
            els = []
            for e in v:
                eb = Bits()
                self.enc(eb, rt.elem, e)
                els.append(eb)
            if k == "SET OF":
                # canonical: sort the (octet-padded) element encodings
                def key(eb):
                    return eb.tobytes()
                mx = max([len(key(e)) for e in els] or [0])
                els.sort(key=lambda eb: key(eb) + b"\x00" * (mx - len(key(eb))))
            put_counted(b, mod, t, len(els), lambda bb, s, c: [bb.extend(e) for e in els[s:s + c]])
        else:
            raise Unsupported(k)

    def enc_integer(self, b, t, v):
        specs = C.chain(self.mod, t, "value_c")
        lb, ub, ext, root = C.per_visible(specs) if specs else (None, None, False, None)
        if ext:
            # X.691 13.1: "not within the range of the extension root" -- the range lb..ub, holes included
            inroot = (lb is None or lb <= v) and (ub is None or v <= ub)
            b.put(0 if inroot else 1, 1)
            if not inroot:
                o = int_octets(v)
                put_length(b, len(o))
                b.put_bytes(o)
                return
        if lb is not None and ub is not None:
            put_constrained(b, v, lb, ub)
        elif lb is not None:
            d = v - lb
            o = d.to_bytes(max(1, (d.bit_length() + 7) // 8), "big")
            put_length(b, len(o))
            b.put_bytes(o)
        else:
            o = int_octets(v)
            put_length(b, len(o))
            b.put_bytes(o)

    def enc_kmstring(self, b, t, rt, v):
        k = rt.kind
        alpha, aext = C.alphabet(self.mod, t, k)
        if alpha is None or aext:
            alpha = ALPHABET.get(k)     # None for BMP/Universal: full repertoire
        if alpha is None:
            bits = BUILTIN_BITS[k]
            code = ord
        else:
            n = len(alpha)
            bits = (n - 1).bit_length() if n > 1 else 0
            top = ord(alpha[-1])
            if top <= (1 << bits) - 1:
                code = ord
            else:
                idx = {c: i for i, c in enumerate(alpha)}
                code = lambda c: idx[c]
        chars = [code(c) for c in v]
        put_counted(b, self.mod, t, len(chars), lambda bb, s, c: [bb.put(x, bits) for x in chars[s:s + c]])

    def enc_sequence(self, b, t, rt, v):
        mod = self.mod
        root = list(rt.comps or []) + list(rt.comps2 or [])
        adds = list(rt.ext or [])

        def present(c):
            if c.name not in v:
                return False
            if c.has_default and values_equal(v[c.name], c.default):
                return False
            return True
        # unknown additions of a later version: a count (all present) or a presence pattern like (0, 1, 0, 1)
        xpat = self.extra.get(id(rt), 0)
        xpat = [1] * xpat if isinstance(xpat, int) else list(xpat)
        nextra = len(xpat) if any(xpat) else 0
        if rt.ext is not None:
            anyadd = any(present(c) for c in adds) or nextra > 0
            b.put(1 if anyadd else 0, 1)
        for c in root:
            if c.optional or c.has_default:
                b.put(1 if present(c) else 0, 1)
        for c in root:
            if present(c):
                if getattr(c, "open", False):
                    # open type (X.691 10.2): complete encoding, octet aligned, behind a length determinant
                    inner = Bits()
                    if isinstance(v[c.name], RawOpen):
                        inner.put_bytes(v[c.name].data)     # a complete encoding produced elsewhere
                    else:
                        self.enc(inner, c.type, v[c.name])
                    put_open(b, inner)
                else:
                    self.enc(b, c.type, v[c.name])
            elif not (c.optional or c.has_default):
                raise Unsupported("missing mandatory component")
        if rt.ext is not None and anyadd:
            total = len(adds) + nextra
            put_nslength(b, total)
            for c in adds:
                b.put(1 if present(c) else 0, 1)
            for i in range(nextra):
                b.put(1 if xpat[i] else 0, 1)
            for c in adds:
                if present(c):
                    inner = Bits()
                    self.enc(inner, c.type, v[c.name])
                    put_open(b, inner)
            for i in range(nextra):
                if not xpat[i]:
                    continue
                inner = Bits()
                inner.put_bytes(bytes([0xA5, i, 0x5A][: 1 + i % 3]))
                put_open(b, inner)

    def canonical_alts(self, rt):
        """root alternatives in canonical tag order (X.680 8.6): class then number of the smallest outer tag"""
        mod = self.mod

        def key(c):
            tags = mod.outer_tags(c)
            return min((CLS_BITS[cls], num) for cls, num in tags)
        return sorted(rt.comps, key=key)

    def enc_choice(self, b, t, rt, v):
        alt, av = v
        roots = self.canonical_alts(rt)
        adds = list(rt.ext or [])
        c = [c for c in rt.all_comps() if c.name == alt][0]
        if rt.ext is not None:
            isadd = c in adds
            b.put(1 if isadd else 0, 1)
            if isadd:
                put_nsnnwn(b, adds.index(c))
                inner = Bits()
                self.enc(inner, c.type, av)
                put_open(b, inner)
                return
        put_constrained(b, roots.index(c), 0, len(roots) - 1)
        self.enc(b, c.type, av)


def encode(mod, t, v, extra_additions=None):
    try:
        return Encoder(mod, extra_additions).encode(t, v)
    except (Unsupported, KeyError):
        return None
