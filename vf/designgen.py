"""python3 -m vf.designgen : regenerate the generated tables of DESIGN.md (between the GENERATED markers) from
known_findings.json, the fix: commits of /repo and /verif/seeded/*/meta.json"""
import json, os, subprocess, re
V = "/verif"
kf = json.load(open(os.path.join(V, "known_findings.json")))["findings"]
out = []
out.append("### 10.4 Repairs made in vlm/asn1c (`fix:` commits)\n")
out.append("Each is a separate unguarded commit in /repo; the project's own suite (82 stable tests) was re-run after each batch.\n")
log = subprocess.check_output(["git", "-C", "/repo", "log", "--reverse", "--format=%h %s", "--grep=^fix:"]).decode().splitlines()
fixed = {e.get("commit"): e for e in kf if e["status"] == "fixed"}
out.append("| commit | repair | found by |")
out.append("|---|---|---|")
for l in log:
    h, s = l.split(" ", 1)
    e = fixed.get(h)
    out.append("| `%s` | %s | %s |" % (h, s[5:].strip().replace("|", "\\|"), e["property"] if e else "—"))
out.append("")
out.append("### 10.5 Open known findings (genuine defects recorded, not repaired)\n")
out.append("Full text, match predicate and witness of each entry are in `known_findings.json`.\n")
out.append("| id | what fails |")
out.append("|---|---|")
for e in kf:
    if e["status"] == "open":
        out.append("| `%s` | %s |" % (e["id"], " ".join(e["what"].split())[:230].replace("|", "\\|")))
out.append("")
out.append("### 10.6 Seeded changes and which check catches them\n")
out.append("Produced by sub-agents that saw only the property text and a scratch worktree; each was re-confirmed (`vf/mutverify.sh`: demo passes on the clean "
           "tree, fails with the change, the project's suite still shows 82 PASS) before being kept under `/verif/seeded/<id>/`. "
           "`python3 -m vf.mutmatrix` re-runs the checks against every change (scratch worktree at /repo's HEAD, evidence redirected).\n")
out.append("| id | change | needs | caught by |")
out.append("|---|---|---|---|")
sd = os.path.join(V, "seeded")
for mid in sorted(os.listdir(sd)) if os.path.isdir(sd) else []:
    mp = os.path.join(sd, mid, "meta.json")
    if not os.path.exists(mp):
        continue
    m = json.load(open(mp))
    cb = m.get("caught_by") or []
    out.append("| %s | %s (`%s`) | %s | %s |" % (mid, " ".join(m.get("title", "").split())[:110].replace("|", "\\|"), ", ".join(m.get("files_touched", []))[:60],
                                          " ".join(m.get("needs_to_manifest", "").split())[:160].replace("|", "\\|"),
                                          ", ".join(c["check"] for c in cb) if cb else ("**not caught**" if m.get("checks_run") else "not run yet")))
out.append("")
out.append("### 10.8 Checks as registered (from MANIFEST.json)\n")
man = json.load(open(os.path.join(V, "MANIFEST.json")))
out.append("| property | level | deciding method | limits |")
out.append("|---|---|---|---|")
for c in man.get("checks", []):
    out.append("| %s | %s | %s | %s |" % (c["property_id"], c["level_claimed"]["category"], " ".join(c.get("technique", "").split()).replace("|", "\\|"),
                                         " ".join(c.get("level_note", "").split())[:320].replace("|", "\\|")))
out.append("")
txt = "\n".join(out)
p = os.path.join(V, "DESIGN.md")
s = open(p).read()
a, b = "<!-- GENERATED:BEGIN -->", "<!-- GENERATED:END -->"
if a in s and b in s:
    s = s[:s.index(a) + len(a)] + "\n" + txt + "\n" + s[s.index(b):]
    open(p, "w").write(s)
    print("DESIGN.md tables regenerated: %d fixes, %d open findings" % (len(log), sum(1 for e in kf if e["status"] == "open")))
else:
    print("markers not found")
