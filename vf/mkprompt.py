"""python3 -m vf.mkprompt <Cnn> <suffix> <first index> : write /var/tmp/prompt-<Cnn><suffix>.txt, the task given to a fresh
sub-agent that seeds realistic property-breaking changes in its own scratch worktree /tmp/mut/wt-<Cnn><suffix>.  The agent gets
the property text and the titles of the changes seeded earlier for the same property (to avoid repeats) -- nothing from /verif."""
import json, os, sys
pid, suf, first = sys.argv[1], sys.argv[2], int(sys.argv[3])
prop = next(json.loads(l) for l in open("/verif/properties.jsonl") if json.loads(l)["id"] == pid)
wt = "/tmp/mut/wt-%s%s" % (pid, suf)
scr = "/var/tmp/%s%s-scratch" % (pid, suf)
titles = []
for d in sorted(os.listdir("/verif/seeded")):
    if d.startswith(pid + "-"):
        try:
            titles.append(json.load(open("/verif/seeded/%s/meta.json" % d))["title"])
        except Exception:
            pass
ids = "%d..%d" % (first, first + 2)
t = """You are working in a scratch git worktree of the open-source project vlm/asn1c (an ASN.1-to-C compiler plus a C runtime of BER/DER/OER/UPER/XER codecs) at {wt}. It is already configured and built in place (`make -j8` in {wt} rebuilds after an edit; the runtime sources are in {wt}/skeletons, the compiler binary is {wt}/asn1c/asn1c, use it as `{wt}/asn1c/asn1c -S {wt}/skeletons ...`; the unber/enber tools are under {wt}/asn1-tools). The project's test suite is `make -k -j4 check` run in {wt} (about 8-10 minutes); on the clean tree it reports 82 PASS lines plus two failures that are there from the start and do not count (FAIL: check-parsing.sh, XFAIL: check-158). Work ONLY inside {wt} and a scratch directory {scr} that you create; do not read, list or modify /repo, /verif, or any other directory under /tmp/mut. There is no network.

Here is a semantic property that users of this project rely on:

  Title: {title}
  Statement: {statement}
  It is meant to hold for: {quant}

Your task: produce THREE different, realistic source changes to the project (the kind of bug a competent developer could plausibly introduce during a refactoring or an "optimisation": an off-by-one, a dropped or inverted check, a wrong branch taken for a rare shape, a stale variable, a boundary handled on the wrong side, a table emitted slightly wrong by the compiler ...), each of which
  (a) compiles without new warnings that would stop the build,
  (b) leaves the existing test suite result unchanged (still 82 PASS, same two pre-existing failures),
  (c) makes the property above FALSE for some inputs,
  (d) needs something specific in order to manifest: it must NOT show on most inputs, only for a particular shape of type/value/encoding/option (say exactly which), so that a handful of ordinary round-trip tests would not notice it,
  (e) is small (1 to about 10 changed lines) and touches code that matters for this property. Use three different mechanisms, preferably in different functions or files (runtime skeletons and/or the compiler's code generator are both fair game).
{explored}
For each i in {ids} create the directory {wt}/MUTANTS/<i>/ containing:
  - patch.diff : `git diff` of the change against the clean tree (must apply with `git apply` from the worktree root);
  - run.sh     : usage `sh run.sh <built tree>`; exits 0 when the property HOLDS on that tree for your triggering input and exits 1 when it is VIOLATED; it must be self-contained (it may run <tree>/asn1c/asn1c on a small .asn1 file you provide, compile the generated code plus a small C program you provide with gcc against <tree>/skeletons, etc.), must use a fresh scratch directory under /var/tmp and remove it afterwards, and must not depend on anything outside <tree> and its own directory;
  - the input files run.sh needs (.asn1 module, demo.c, data files);
  - meta.txt   : first line a one-line title; then "File / function:", "Change:", "Effect:" (precisely what shape of input is needed for the violation to show, and what one observes), "How verified:".
Verify each one yourself: run.sh exits 0 on the clean tree and 1 with the patch applied and the tree rebuilt; the tree builds; and the test suite still gives 82 PASS with the patch applied (run the full suite at least once per change; use -j4, not more, other jobs share this machine). If a candidate change fails any of this, discard it and make another one.
Other jobs share this machine and run the same commands in their own trees: never use pkill/killall or any kill by command-line pattern; if you must stop something, kill only processes whose /proc/<pid>/cwd lies inside your own worktree or scratch directory.
When you are done, restore the worktree sources (`git -C {wt} checkout -- .` and rebuild with `make -j8`) so that only MUTANTS/ is untracked, remove {scr}, and reply with a short summary: for each change, the file/function, the one-line description, what is needed to trigger it, and the verification results (run.sh clean/patched exit codes, PASS count).
"""
explored = ""
if titles:
    explored = "\nThe following mechanisms have been explored already; do not repeat them or close variants of them, and prefer other files/functions:\n" + \
               "".join("  - %s\n" % x for x in titles)
out = t.format(wt=wt, scr=scr, title=prop["title"], statement=prop["statement"], quant=prop["quantifier"]["text"], explored=explored, ids=ids)
p = "/var/tmp/prompt-%s%s.txt" % (pid, suf)
open(p, "w").write(out)
print(p, len(out))
