"""C12 -- compiler output is deterministic, independent of the order of input
files, and invariant under the pretty-print round trip."""
import glob, hashlib, itertools, os, random, re, shutil, subprocess
from concurrent.futures import ThreadPoolExecutor
from .. import build, core
from ..asn import gen, model


def run_asn1c(tool, args, cwd, env_extra=None, timeout=120, prefix=()):
    env = build.tool_env(env_extra)
    try:
        p = subprocess.run(list(prefix) + [tool] + list(args), cwd=cwd, stdout=subprocess.PIPE, stderr=subprocess.PIPE,
                           env=env, timeout=timeout)
        return p.returncode, p.stdout, p.stderr.decode("latin-1")
    except subprocess.TimeoutExpired:
        return -99, b"", "timeout"


def tree_digest(d, only=None):
    out = {}
    for root, dirs, files in os.walk(d):
        for f in files:
            p = os.path.join(root, f)
            rel = os.path.relpath(p, d)
            if only and not only(rel):
                continue
            with open(p, "rb") as fh:
                out[rel] = hashlib.sha1(fh.read()).hexdigest()
    return out


def clean_err(err):
    return "\n".join(l for l in err.split("\n") if "runtime error:" not in l).strip()


def gen_module_set(seed, n):
    """list of (filename, text): module 1 stands alone, the others import from it"""
    g = gen.Gen(seed, gen.profile(max_len=8))
    m1 = g.module("MA%d" % (seed % 1000), atoms=6, composites=5)
    files = [("ma.asn1", m1.text())]
    exported = list(m1.types.keys())
    rng = random.Random(seed)
    for i in range(1, n):
        g2 = gen.Gen(seed * 7 + i, gen.profile(max_len=8))
        name = "MB%d%s" % (seed % 1000, "xyzw"[i])
        m = model.Module(name, rng.choice(["EXPLICIT", "IMPLICIT", "AUTOMATIC"]))
        g2.mod = m
        g2.atom_names = []
        g2.comp_names = []
        used = rng.sample(exported, min(len(exported), 4))
        m.imports = [(used, m1.name)]
        # local atoms
        for k in range(3):
            nm = "B%d%s" % (k, "xyzw"[i])
            m.add(nm, g2.atom())
            g2.atom_names.append(nm)
        for k, u in enumerate(used):
            nm = "D%d%s" % (k, "xyzw"[i])
            m.add(nm, model.Type("SEQUENCE", comps=[model.Comp("a", model.Type("REF", ref=u)),
                                                    model.Comp("b", model.Type("REF", ref=rng.choice(g2.atom_names)), optional=True)]))
            # tags under non-automatic modules: distinct universal tags not guaranteed -> context tags
            if m.tagdefault != "AUTOMATIC":
                for j, c in enumerate(m.types[nm].comps):
                    c.type.tag = ("C", j, None if True else None)
                    if c.type.kind == "REF":
                        c.type.tag = ("C", j, "EXPLICIT")
        files.append(("mb%s.asn1" % "xyzw"[i], m.text()))
    return files


def gen_clash_set(seed, n):
    """n independent modules whose top-level type names coincide in part (asn1c qualifies clashing names with the module
    name): module k keeps the names of a share of its types and renames the rest"""
    rng = random.Random(seed)
    files = []
    for i in range(n):
        g = gen.Gen(seed * 11 + i, gen.profile(max_len=6))
        m = g.module("MC%d%s" % (seed % 1000, "abcd"[i]), atoms=5, composites=4)
        text = m.text()
        names = sorted(m.types, key=len, reverse=True)
        keep = set(rng.sample(names, rng.randint(1, len(names) - 1))) if i else set(names)
        for nm in names:
            if nm not in keep:
                text = re.sub(r"\b%s\b" % nm, "%sq%s" % (nm, "abcd"[i]), text)
        files.append(("mc%s.asn1" % "abcd"[i], text))
    return files


FIXED_VALUES = """FV DEFINITIONS AUTOMATIC TAGS EXTENSIBILITY IMPLIED ::= BEGIN

Str ::= SEQUENCE {
    s1 IA5String DEFAULT "say ""hi"" now",
    s2 UTF8String DEFAULT "",
    s3 VisibleString ("a""b" | "plain") OPTIONAL,
    b1 BIT STRING DEFAULT '1011'B,
    o1 OCTET STRING DEFAULT 'DEADBEEF'H,
    i1 INTEGER { low(-5), high(5) } DEFAULT low,
    i2 INTEGER (-9223372036854775807..9223372036854775807) DEFAULT -9223372036854775807,
    e1 ENUMERATED { red(0), green(1), ..., blue(2) } DEFAULT green,
    t1 BOOLEAN DEFAULT TRUE
}

quote IA5String ::= "a""b"

maxint INTEGER ::= 9223372036854775807

Sized ::= OCTET STRING (SIZE(1..maxint))

Ch ::= CHOICE { a [0] Str, b [1] EXPLICIT Sized, c [2] NULL }

K1 ::= IA5String (SIZE(1..8) ^ FROM("a".."f" | "0".."9"))

K2 ::= INTEGER ((0..100) EXCEPT (40..60))

K3 ::= INTEGER (ALL EXCEPT 5)

K4 ::= INTEGER (1..10 | 20..30, ..., 40)

K5 ::= IA5String (FROM("a".."p" | "0".."9"))

K6 ::= VisibleString (SIZE(2..4)) (FROM("@" | "0".."9"))

K7 ::= SEQUENCE (SIZE(1..3, ...)) OF INTEGER (0..7)

END
"""


FIXED_DIRECTIVES = """DR DEFINITIONS AUTOMATIC TAGS ::= BEGIN

Dims ::= SEQUENCE { w INTEGER (0..10000), h INTEGER (0..10000) }

Item ::= SEQUENCE {
    id INTEGER (0..65535),
    --<ASN1C.RepresentAsPointer>--
    dims Dims,
    note IA5String OPTIONAL,
    ...
}

Loc ::= CHOICE {
    shelf INTEGER (1..500),
    --<ASN1C.RepresentAsPointer>--
    crate Dims
}

TelemetryPacketRecord ::= SEQUENCE OF Item

END
"""

# a parameterized type instantiated in the file that is not the first one in some orders (the generated names of the
# instances embed the source line of the instantiation)
FIXED_PARAM = [("pa.asn1", """PA DEFINITIONS AUTOMATIC TAGS ::= BEGIN
EXPORTS ALL;

SeqNo ::= INTEGER (0..4294967295)

Stamp ::= SEQUENCE { s INTEGER (0..4294967295), us INTEGER (0..999999) }

Prio ::= ENUMERATED { low, normal, high, ... }

END
"""), ("pb.asn1", """PB DEFINITIONS AUTOMATIC TAGS ::= BEGIN
IMPORTS SeqNo, Stamp, Prio FROM PA;

Envelope { Payload } ::= SEQUENCE {
    seq SeqNo,
    sent Stamp,
    prio Prio DEFAULT normal,
    body Payload
}

TextBody ::= UTF8String (SIZE(0..200))

TextMessage ::= Envelope { TextBody }

Sample ::= SEQUENCE { value INTEGER (0..1023), unit IA5String (SIZE(1..8)) }

SampleMessage ::= Envelope { Sample }

END
""")]


# COMPONENTS OF a type imported from a module with another tagging default
FIXED_COMPOF = [("ca.asn1", """CA DEFINITIONS AUTOMATIC TAGS ::= BEGIN
EXPORTS ALL;

Base ::= SEQUENCE { x INTEGER, y BOOLEAN }

END
"""), ("cb.asn1", """CB DEFINITIONS ::= BEGIN
IMPORTS Base FROM CA;

S ::= SEQUENCE { z [5] IA5String, COMPONENTS OF Base }

END
""")]


# COMPONENTS OF between two AUTOMATIC TAGS modules (file-order independent in the unchanged tree)
FIXED_COMPOF2 = [("da.asn1", """DA DEFINITIONS AUTOMATIC TAGS ::= BEGIN
EXPORTS ALL;

Base ::= SEQUENCE { x INTEGER, y BOOLEAN OPTIONAL }

END
"""), ("db.asn1", """DB DEFINITIONS AUTOMATIC TAGS ::= BEGIN
IMPORTS Base FROM DA;

Msg ::= SEQUENCE { hdr INTEGER, COMPONENTS OF Base, body OCTET STRING }

Two ::= SEQUENCE { COMPONENTS OF Base, z IA5String }

END
""")]


def run(tier, seed):
    chk = core.Check("C12", tier, seed)
    quick = tier == "quick"
    rng = random.Random(seed)
    chk.rule = ("asn1c built from the current tree (ASan and plain builds) run on generated single- and multi-module sets and on the shipped "
                "*-OK.asn1 / examples corpus: (1) two runs into directories with identical relative paths under perturbed ASLR, MALLOC_PERTURB_, "
                "environment size and build flavour -> byte comparison of every emitted file; (2) permutations of the file list -> per-type .c/.h "
                "identical; (3) asn1c -E (and -E -F) printed text is accepted again, is a fixpoint, and (generated non-parameterised modules) "
                "asn1c -P of the printed text equals asn1c -P of the original; distinct = distinct (input set, sub-check)")
    chk.assumptions = ["the old-syntax file 43-* and the *-SE/-SW negative files are not part of the corpus (statement: modern syntax)"]
    tc = build.toolchain()
    asan = tc.tool("asn1c", "asan")
    plain = tc.tool("asn1c", "plain")
    skel = os.path.join(tc.repo, "skeletons")
    work = build.scratch_dir("c12")
    # ---------------------------------------------------------------- corpus
    sets = []       # (label, [files as (name, text)], generated?)
    nsingle = 4 if quick else 30
    for i in range(nsingle):
        g = gen.Gen(seed * 100 + i, gen.profile(max_len=8))
        m = g.module("M%d" % i, atoms=8, composites=8)
        text = m.text()
        if i % 2:
            # the module header's second default: every SEQUENCE/SET/CHOICE/ENUMERATED becomes extensible
            text = text.replace(" TAGS ::= BEGIN", " TAGS EXTENSIBILITY IMPLIED ::= BEGIN", 1)
        sets.append(("gen-single-%d" % i, [("m.asn1", text)], True))
    for i in range(3 if quick else 15):
        sets.append(("gen-multi-%d" % i, gen_module_set(seed * 100 + 50 + i, rng.choice([2, 3, 4])), True))
    sets.append(("gen-values-0", [("fv.asn1", FIXED_VALUES)], True))
    # asn1c-specific directives must survive printing; -pdu=<a long type name> goes into the example makefiles
    sets.append(("gen-directives-0", [("dr.asn1", FIXED_DIRECTIVES)], True, ("-pdu=TelemetryPacketRecord",)))
    sets.append(("gen-param-0", FIXED_PARAM, False))
    sets.append(("gen-compof-0", FIXED_COMPOF, False))
    sets.append(("gen-compofauto-0", FIXED_COMPOF2, False))
    for i in range(2 if quick else 10):
        sets.append(("gen-clash-%d" % i, gen_clash_set(seed * 100 + 70 + i, rng.choice([2, 2, 3])), True, ("-fcompound-names",)))
    shipped = sorted(glob.glob(os.path.join(tc.repo, "tests/tests-asn1c-compiler/*-OK.asn1")))
    shipped = [f for f in shipped if "/43-" not in f and "old-syntax" not in f]
    shipped += sorted(glob.glob(os.path.join(tc.repo, "examples/*.asn1")))
    if quick:
        shipped = rng.sample(shipped, min(len(shipped), 25))
    for f in shipped:
        try:
            txt = open(f, encoding="utf-8", errors="surrogateescape").read()
        except OSError:
            continue
        sets.append(("shipped:" + os.path.basename(f), [(os.path.basename(f), txt)], False))

    def one(item):
        label, files, generated = item[:3]
        xopts = list(item[3]) if len(item) > 3 else []
        if not any(x.startswith("-pdu=") for x in xopts):
            xopts = ["-pdu=all"] + xopts
        d = os.path.join(work, hashlib.sha1(label.encode()).hexdigest()[:10])
        os.makedirs(d, exist_ok=True)
        for n, t in files:
            with open(os.path.join(d, n), "w", encoding="utf-8", errors="surrogateescape") as fh:
                fh.write(t)
        names = [n for n, t in files]
        rec = {"label": label, "dir": d, "names": names, "generated": generated, "v": []}
        # (1) determinism of full output
        runs = []
        variants = [(asan, {}, ()), (plain, {"MALLOC_PERTURB_": "85", "PADDING": "x" * 3000}, ("setarch", "x86_64", "-R")),
                    (asan, {"MALLOC_PERTURB_": "170"}, ()),
                    # the uninstrumented binary a second time (ASan fills fresh and freed heap with fixed patterns, which hides
                    # output that depends on uninitialised or stale heap bytes)
                    (plain, {"PADDING": "y" * 11}, ())]
        for i, (tool, envx, prefix) in enumerate(variants):
            out = os.path.join(d, "run%d" % i, "o")
            os.makedirs(out)
            rc, so, se = run_asn1c(tool, ["-S", skel, "-D", "o"] + xopts + ["../" + n for n in names],
                                   os.path.join(d, "run%d" % i), envx, prefix=prefix if shutil.which("setarch") else ())
            runs.append((rc, tree_digest(out, lambda r: r.endswith((".c", ".h", ".am", ".mk")) or "Makefile" in r), clean_err(se)))
        rec["runs"] = runs
        # (2) permutations
        if len(names) > 1:
            perms = list(itertools.permutations(names))
            if len(perms) > 6:
                perms = [perms[0]] + random.Random(label).sample(perms[1:], 5)
            pres = []
            for i, pm in enumerate(perms):
                out = os.path.join(d, "perm%d" % i, "o")
                os.makedirs(out)
                rc, so, se = run_asn1c(asan, ["-S", skel, "-D", "o"] + xopts + ["../" + n for n in pm],
                                       os.path.join(d, "perm%d" % i))
                skn = set(os.listdir(skel))
                pres.append((pm, rc, tree_digest(out, lambda r: r.endswith((".c", ".h")) and r not in skn and
                                                 r not in ("pdu_collection.c", "converter-example.c"))))
            rec["perms"] = pres
        # (3) print / parse
        for flags in (["-E"], ["-E", "-F"]):
            rc1, p1, e1 = run_asn1c(asan, flags + names, d)
            r = {"flags": flags, "rc1": rc1, "e1": clean_err(e1)[:300]}
            if rc1 == 0:
                pd = os.path.join(d, "p" + "".join(flags))
                os.makedirs(pd, exist_ok=True)
                with open(os.path.join(pd, "p1.asn1"), "wb") as fh:
                    fh.write(p1)
                rc2, p2, e2 = run_asn1c(asan, flags + ["p1.asn1"], pd)
                r.update(rc2=rc2, same=(p1 == p2), e2=clean_err(e2)[:300], p1len=len(p1))
                if flags == ["-E"] and generated and len(names) == 1:
                    # same generated code: compile original and printed text under the same file name
                    a = os.path.join(pd, "a")
                    b_ = os.path.join(pd, "b")
                    os.makedirs(a)
                    os.makedirs(b_)
                    shutil.copy(os.path.join(d, names[0]), os.path.join(a, "m.asn1"))
                    with open(os.path.join(b_, "m.asn1"), "wb") as fh:
                        fh.write(p1)
                    rca, pa, ea = run_asn1c(asan, ["-S", skel, "-P", "m.asn1"], a)
                    rcb, pb, eb = run_asn1c(asan, ["-S", skel, "-P", "m.asn1"], b_)
                    r.update(rca=rca, rcb=rcb, samecode=(pa == pb), eb=clean_err(eb)[:300])
                    if pa != pb and rca == 0 and rcb == 0:
                        la, lb = pa.decode("latin-1").split("\n"), pb.decode("latin-1").split("\n")
                        for x, y in zip(la, lb):
                            if x != y:
                                r["firstdiff"] = (x[:160], y[:160])
                                break
            rec["v"].append(r)
        return rec

    with ThreadPoolExecutor(build.JOBS) as ex:
        recs = list(ex.map(one, sets))
    for rec in recs:
        label = rec["label"]
        fam = label.split("-")[0] + ("-" + label.split("-")[1] if label.startswith("gen") else "") if not label.startswith("shipped") else "shipped"
        replay = {"label": label, "files": {n: open(os.path.join(rec["dir"], n), encoding="utf-8", errors="surrogateescape").read()[:6000] for n in rec["names"]}}
        # (1)
        chk.evaluations += 1
        chk.seen((label, "determinism"))
        rcs = [r[0] for r in rec["runs"]]
        if -99 in rcs:
            chk.inconcl("asn1c timed out (sanitizer build on a large specification)")
            continue
        if any(rc < 0 and rc != -99 for rc in rcs):
            chk.inconcl("asn1c died on the input (C10's business)")
        elif len(set(rcs)) > 1:
            chk.violation({"symptom": "exit-status-differs-between-runs", "family": fam},
                          "asn1c exit status differs between identical runs of %s: %s" % (label, rcs), replay)
        elif rcs[0] != 0 and label == "gen-values-0":
            chk.inconcl("the fixed value-notation module was rejected: " + rec["runs"][0][2][:100])
        elif rcs[0] == 0:
            base = rec["runs"][0][1]
            for i, (rc, dg, se) in enumerate(rec["runs"][1:], 1):
                if i == 1:
                    # run 1 uses the other build flavour: its argv[0] (echoed into the example makefiles) differs by construction
                    dg = {k: v for k, v in dg.items() if k.endswith((".c", ".h"))}
                    cmpbase = {k: v for k, v in base.items() if k.endswith((".c", ".h"))}
                elif i == 3:
                    cmpbase = rec["runs"][1][1]     # plain build against plain build: every file
                else:
                    cmpbase = base
                if dg != cmpbase:
                    base = cmpbase
                    diff = sorted(k for k in set(base) | set(dg) if base.get(k) != dg.get(k))
                    chk.violation({"symptom": "output-differs-between-runs", "family": fam},
                                  "two asn1c runs on %s produced different files: %s" % (label, diff[:6]), dict(replay, files_differing=diff[:20]))
                    break
            else:
                chk.count("deterministic_sets")
        else:
            chk.count("rejected_sets")
        # (2)
        if rec.get("perms"):
            chk.evaluations += 1
            chk.seen((label, "permutation"))
            ok = [p for p in rec["perms"] if p[1] == 0]
            if len(ok) != len(rec["perms"]) and ok:
                chk.violation({"symptom": "acceptance-depends-on-file-order", "family": fam},
                              "asn1c accepts %s in some file orders only: %s" % (label, [(p[0], p[1]) for p in rec["perms"]]), replay)
            elif ok:
                base = ok[0][2]
                for pm, rc, dg in ok[1:]:
                    if dg != base:
                        diff = sorted(k for k in set(base) | set(dg) if base.get(k) != dg.get(k))
                        chk.violation({"symptom": "per-type-files-depend-on-file-order", "family": fam},
                                      "per-type files of %s differ between file orders %s and %s: %s" % (label, ok[0][0], pm, diff[:6]),
                                      dict(replay, order_a=ok[0][0], order_b=pm, files_differing=diff[:20]))
                        break
                else:
                    chk.count("order_independent_sets")
        # (3)
        for r in rec["v"]:
            chk.evaluations += 1
            fl = "".join(r["flags"])
            chk.seen((label, "print" + fl))
            multi = len(rec["names"]) > 1
            alltext = "\n".join(replay["files"].values())
            feats = []
            if re.search(r"\bOF\s+(SET|SEQUENCE)\s+OF\s+[A-Za-z][A-Za-z0-9 -]*?\s*\(", alltext):
                feats.append("of-of-constrained")       # X OF Y OF <leaf with constraint>: see KF-C01-nested-OF-constraint-misparse
            key = {"family": fam, "flags": fl, "multi": multi, "label": label if fam == "shipped" else "-", "features": "+".join(feats) or "-"}
            if r["rc1"] != 0:
                chk.count("print_rejected_original_%s" % fl)
                continue
            if r.get("rc2") != 0:
                chk.violation(dict(key, symptom="printed-text-rejected", imports=("IMPORTS" in "".join(replay["files"].values())),
                                   err=errclass(r.get("e2", ""))),
                              "the text printed by asn1c %s for %s is not accepted by asn1c %s again: %s" % (
                                  " ".join(r["flags"]), label, " ".join(r["flags"]), r.get("e2", "")[:200]), replay)
                continue
            if not r.get("same"):
                chk.violation(dict(key, symptom="print-not-fixpoint"),
                              "asn1c %s printed text of %s changes when printed again" % (" ".join(r["flags"]), label), replay)
                continue
            if "samecode" in r:
                if r["rca"] == 0 and r["rcb"] != 0:
                    chk.violation(dict(key, symptom="printed-text-does-not-compile"),
                                  "asn1c compiles %s but not its own printed text: %s" % (label, r.get("eb", "")[:200]), replay)
                elif r["rca"] == 0 and not r["samecode"]:
                    chk.violation(dict(key, symptom="printed-text-compiles-to-different-code"),
                                  "asn1c -P of the printed text of %s differs from asn1c -P of the original; first difference: %s" % (
                                      label, r.get("firstdiff")), replay)
                else:
                    chk.count("same_code_sets")
            chk.count("print_fixpoint_%s" % fl)
        if len(chk.samples) < 5:
            chk.sample({"label": label, "files": rec["names"], "runs_rc": rcs, "print": [(r["flags"], r["rc1"], r.get("rc2"), r.get("same")) for r in rec["v"]]})
    ngen = sum(1 for r in recs if r["generated"])
    nrej = sum(1 for r in recs if r["generated"] and r["runs"][0][0] not in (0, -99))
    if ngen and nrej * 2 > ngen:
        chk.inconcl("more than half of the generated module sets were rejected (%d of %d)" % (nrej, ngen))
    return chk.finish()


def errclass(e):
    import re
    for l in e.split("\n"):
        l = l.strip()
        if l.startswith(("FATAL:", "ERROR:", "ASN.1 grammar parse error")):
            l = re.sub(r'"[^"]*"', '"X"', l)
            l = re.sub(r"\d+", "N", l)
            l = re.sub(r"In \S+ at", "In X at", l)
            return l[:70]
    return (e.strip().split("\n") or [""])[0][:70]
