"""C03 -- decoders accept every valid encoding of a value, not only the
library's own."""
import os, random
from .. import build, core, drv, harness, taboo
from ..asn import gen, model, der
from . import variants


def _generic_tree(d, buf):
    """der.Node tree of a parsed TLV (no type knowledge: nothing is marked as a string or a wrapper)"""
    if d["constructed"]:
        nd = der.Node(d["cls"], d["num"], True, None, [_generic_tree(c, buf) for c in d["children"]])
        # a non-universal constructed TLV with a single TLV inside is, as far as one can tell without the type, an EXPLICIT
        # tag: most rewritings keep its length form equal to the inner one (the other combination is a listed finding)
        nd.wrapper = d["cls"] != "U" and len(nd.children) == 1
        return nd
    return der.Node(d["cls"], d["num"], False, bytes(buf[d["off"] + d["hdrlen"]: d["off"] + d["total"]]), None)


def _definite_minimal(hexout):
    """the encoder's output with every length in the definite minimal form: an ANY / open type value keeps the octets it
    arrived in, so DER(decoded) legitimately repeats the rewritten length forms inside such a field"""
    try:
        x = drv.unhex(hexout)
        d, _ = der.parse_tlv(x)
        return der.serialize(_generic_tree(d, x)).hex()
    except Exception:
        return hexout


def real_round(chk, tc, rng, quick):
    """the shipped sample PDUs (foreign encoders' output) and, for the BER ones, their type-agnostic BER rewritings
    (indefinite lengths on subsets of the constructed TLVs, long-form lengths with leading zero octets)"""
    from .. import realpdu
    from . import variants
    nm = realpdu.names(quick)
    blds = realpdu.make_many(tc, nm)
    for spec, pdu, syn, label, data in realpdu.samples(tc, nm):
        b = blds[spec]
        if b.exe is None:
            chk.inconcl("shipped specification %s not built (%s)" % (spec, b.error[0]))
            continue
        encs = [("sample", data)]
        if syn == "BER":
            d, _ = der.parse_tlv(data)
            tree = _generic_tree(d, data)
            assert der.serialize(tree) == data[:d["total"]]
            encs += variants.ber_variants(rng, tree, 2 if quick else 8)
        esyn = "DER" if syn == "BER" else syn
        cases = [drv.Case(i + 1, ["dec s=0 t=%s syn=%s in=%s" % (pdu, syn, drv.hx(x)), "enc s=0 syn=%s" % esyn, "free s=0"])
                 for i, (fam, x) in enumerate(encs)]
        res = drv.run_parallel(b.exe, cases, per_case_timeout=120)
        ref = None
        for i, (fam, x) in enumerate(encs):
            r = res.get(i + 1)
            if r is None or r.status == "notrun":
                chk.inconcl("case not run")
                continue
            chk.evaluations += 1
            chk.seen(("real", label, x))
            replay = {"module": b.text, "options": b.options, "pdu": pdu, "sample": "examples/" + label, "family": fam, "input_hex": x.hex()[:6000]}
            key = {"syntax": syn, "family": fam, "kind": "real", "fids": [], "sample": label}
            if r.status in ("crash", "hang"):
                kind, frame = drv.classify_report(r.stderr)
                chk.violation(dict(key, symptom=r.status, report=kind, frame=frame),
                              "%s while decoding the shipped sample %s (%s): %s in %s" % (r.status, label, fam, kind, frame), dict(replay, stderr=r.stderr[-3000:]))
                continue
            dd, e = r.events[0], r.events[1]
            bad = None
            if dd.get("rc") != "OK":
                bad = "decode-" + dd.get("rc", "?")
            elif fam != "sample" and int(dd["consumed"]) != len(x):
                bad = "consumed-mismatch"
            elif fam == "sample":
                ref = e.get("out")
            elif ref is not None and _definite_minimal(e.get("out")) != ref:
                bad = "value-differs"
            if bad:
                chk.violation(dict(key, symptom=bad), "the shipped sample %s in the valid form '%s': %s (rc=%s consumed=%s of %d)" % (
                    label, fam, bad, dd.get("rc"), dd.get("consumed"), len(x)), replay)
            else:
                chk.count("real_" + ("sample" if fam == "sample" else "variant") + "_accepted")


def run(tier, seed):
    chk = core.Check("C03", tier, seed)
    quick = tier == "quick"
    rng = random.Random(seed)
    chk.rule = ("for generated (type, value): the reference DER encoding and members of each family of alternative valid encodings produced by the "
                "independent model -- BER: long-form lengths with leading zero octets, indefinite lengths on subsets of constructed nodes, constructed "
                "(segmented, nested) strings, SET components permuted, DEFAULT values present, non-0xFF TRUE, unknown extension additions; UPER and OER: "
                "the reference encodings (incl. values sent by a 'version 2' peer with extra additions); XER: BASIC and CANONICAL layout with white space, "
                "comments, empty-element forms -- are decoded; judged: RC_OK, consumed == length, DER(decoded) == reference DER; "
                "distinct = distinct (type, encoding bytes)")
    chk.assumptions = ["only encodings the standards make valid are generated (no padded tags, no non-minimal INTEGER contents, no non-minimal PER lengths)",
                       "trusts the reference encoders in vf/asn (DER/BER, UPER, OER, XER)"]
    tc = build.toolchain()
    real_round(chk, tc, rng, quick)
    tb = taboo.Taboo("C03")
    nmod = int(os.environ.get("VERIF_NMOD", 4 if quick else 40))
    nvar = 3 if quick else 12
    prof = gen.profile(max_len=12)
    from ..asn import shapes
    builds = harness.make_many(tc, [seed * 1000 + 200 + i for i in range(nmod)], prof, atoms=11, composites=10)
    builds.append(harness.make(tc, seed * 1000 + 299, prof, module_fn=lambda g: shapes.build("SH")))
    builds.append(harness.make(tc, seed * 1000 + 298, prof, module_fn=lambda g: shapes.build2("SH2")))
    from . import refenc
    for b in builds:
        if b.exe is None:
            chk.inconcl("module not built (%s)" % b.error[0])
            continue
        enc = der.Encoder(b.mod)
        cases, meta = [], {}
        cid = 0
        for tname, t in b.mod.types.items():
            if b.mod.name == "SH":
                b.gen.mod = b.mod
                vals = shapes.values(b.mod, tname, rng, quick)
                if quick:
                    vals = [v for i, v in enumerate(vals) if i % 3 == seed % 3][:12]
            elif b.mod.name == "SH2":
                b.gen.mod = b.mod
                vals = shapes.values2(b.mod, tname, rng, quick)
            else:
                vals = b.gen.values(t, 3 if quick else 8)
            for v in vals:
                try:
                    tree = enc.tree(t, v)
                except der.Unsupported:
                    continue
                ref = der.serialize(tree)
                encs = [("BER", "der", ref)]
                if len(ref) < 5000:
                    for fam, vb in variants.ber_variants(rng, tree, nvar):
                        encs.append(("BER", fam, vb))
                    for fam, vb in variants.ber_semantic_variants(rng, b.mod, t, v, enc, nvar):
                        encs.append(("BER", fam, vb))
                for syn, fam, xb in refenc.reference_encodings(b.mod, t, v, rng, nvar):
                    encs.append((syn, fam, xb))
                ops = []
                plan = []
                for syn, fam, xb in encs:
                    ops += ["dec s=0 t=%s syn=%s in=%s" % (tname, syn, drv.hx(xb)), "enc s=0 syn=DER", "free s=0"]
                    plan.append((syn, fam, xb))
                cid += 1
                cases.append(drv.Case(cid, ops))
                meta[cid] = (tname, t, v, ref, plan)
        res = drv.run_parallel(b.exe, cases)
        # second stage: value-preserving rewritings of the library's own XER documents (white-space, comments, empty-element
        # tags, white-space inside tags, prolog); the yardstick is the reference DER of the value
        xcases, xmeta = [], {}
        for cid, (tname, t, v, ref, plan) in list(meta.items()):
            r = res.get(cid)
            if r is None or r.status != "ok" or len(ref) > 3000:
                continue
            xcases.append(drv.Case(cid, ["dec s=0 t=%s syn=BER in=%s" % (tname, drv.hx(ref)), "enc s=0 syn=CXER", "enc s=0 syn=BXER"]))
        xres = drv.run_parallel(b.exe, xcases, confirm=False) if xcases else {}
        x2cases = []
        nid = max(meta) + 1 if meta else 1
        for cid, (tname, t, v, ref, plan) in list(meta.items()):
            r = xres.get(cid)
            if r is None or r.status != "ok" or len(r.events) < 3 or r.events[0].get("rc") != "OK":
                continue
            plan2, ops2 = [], []
            for syn, e in (("CXER", r.events[1]), ("BXER", r.events[2])):
                if e.get("out") in (None, "-") or e.get("rc") in ("-1", None):
                    continue
                own = drv.unhex(e["out"])
                if syn == "BXER" and own.endswith(b"\n"):
                    own = own[:-1]      # the document proper ends with the root end tag (KF-C01-BXER-trailing-newline is about the extra newline)
                # only documents the library itself reads back to the value are rewritten (its own round trip is C01's business)
                for fam, xb in [("own", own)] + variants.xer_variants(rng, own, nvar):
                    ops2 += ["dec s=0 t=%s syn=%s in=%s" % (tname, syn, drv.hx(xb)), "enc s=0 syn=DER", "free s=0"]
                    plan2.append((syn, "xer-" + fam, xb))
            if plan2:
                x2cases.append(drv.Case(nid, ops2))
                xmeta[nid] = (tname, t, v, ref, plan2)
                nid += 1
        x2res = drv.run_parallel(b.exe, x2cases) if x2cases else {}
        for c2, (tname, t, v, ref, plan2) in xmeta.items():
            r = x2res.get(c2)
            if r is None or r.status == "notrun":
                continue
            # drop the rewritings of documents whose unmodified form is not read back correctly
            ev = r.events
            good = {}
            keep = []
            for i, (syn, fam, xb) in enumerate(plan2):
                if 3 * i + 1 >= len(ev):
                    break
                d, e = ev[3 * i], ev[3 * i + 1]
                ok = d.get("rc") == "OK" and e.get("out") == drv.hx(ref)
                if fam == "xer-own":
                    good[syn] = ok
            if not any(good.values()) and r.status == "ok":
                continue
            meta[c2] = (tname, t, v, ref, [p if (good.get(p[0]) or r.status != "ok") else (p[0], "skip", p[2]) for p in plan2])
            res[c2] = r
        for cid, (tname, t, v, ref, plan) in meta.items():
            r = res.get(cid)
            if r is None or r.status == "notrun":
                chk.inconcl("case not run")
                continue
            rt = b.mod.resolve(t)
            ev = r.events
            for i, (syn, fam, xb) in enumerate(plan):
                if 3 * i + 1 >= len(ev):
                    break
                d, e = ev[3 * i], ev[3 * i + 1]
                if fam in ("skip", "xer-own"):
                    continue
                chk.evaluations += 1
                chk.seen((b.seed, tname, syn, xb))
                idsyn = {"BER": "DER"}.get(syn, syn)
                fids = tb.hit(taboo.ids(b.mod, t, v, idsyn))
                bad = None
                if d.get("rc") != "OK":
                    bad = "decode-" + d.get("rc", "?")
                elif int(d["consumed"]) != len(xb):
                    bad = "consumed-short-by-trailing-newline" if (syn == "BXER" and len(xb) - int(d["consumed"]) == 1 and xb.endswith(b"\n")) \
                        else "consumed-mismatch"
                elif e.get("out") != drv.hx(ref):
                    bad = "value-differs"
                if bad:
                    chk.violation({"symptom": bad, "syntax": syn, "family": fam, "kind": rt.kind, "fids": fids,
                                   "xer_empty_value": bool(fam.startswith("xer-") and any(w in xb for w in (b"<true", b"<false", b"INFINITY", b"<NOT-A-NUMBER"))),
                                   "empty_root": bool(rt.kind in ("SEQUENCE", "SET") and not (rt.comps or []))},
                                  "%s %s: valid %s encoding (%s, %d bytes) -> %s consumed=%s%s; value %s" % (
                                      tname, model.type_text(t, 0)[:100].replace("\n", " "), syn, fam, len(xb), d.get("rc"), d.get("consumed"),
                                      "" if bad != "value-differs" else " DER %s != ref %s" % ((e.get("out") or "")[:60], ref.hex()[:60]),
                                      gen.value_repr(v, 100)),
                                  {"module": b.text, "pdu": tname, "syntax": syn, "family": fam, "input_hex": xb.hex(), "ref_der": ref.hex(),
                                   "value": gen.value_repr(v, 2000)},
                                  disc={"ids": sorted(taboo.ids(b.mod, t, v, idsyn)), "type": model.type_text(t, 0), "syntax": syn})
                else:
                    chk.count("ok_%s_%s" % (syn, fam.split("+")[0]))
            if r.status in ("crash", "hang"):
                kind, frame = drv.classify_report(r.stderr)
                nans = len(ev)
                syn, fam, xb = plan[min(nans // 3, len(plan) - 1)]
                chk.violation({"symptom": r.status, "report": kind, "frame": frame, "syntax": syn, "family": fam, "kind": rt.kind,
                               "fids": tb.hit(taboo.ids(b.mod, t, v, {"BER": "DER"}.get(syn, syn)))},
                              "%s (%s in %s) decoding a valid %s encoding (%s) of %s" % (r.status, kind, frame, syn, fam, tname),
                              {"module": b.text, "pdu": tname, "input_hex": xb.hex(), "stderr": r.stderr[-2500:]})
            if len(chk.samples) < 6 and len(plan) > 3:
                chk.sample({"pdu": tname, "type": model.type_text(t, 0)[:160], "value": gen.value_repr(v, 100),
                            "encodings": [(s, f, x.hex()[:60]) for s, f, x in plan[:5]]})
    return chk.finish()
