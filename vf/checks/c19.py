"""C19 -- codecs are re-entrant: concurrent use equals sequential use, without data races."""
import os, random, re, subprocess, glob, collections
from .. import build, core, drv, harness
from ..asn import gen, model, der

ENC = ["DER", "UPER", "OER", "CXER", "BXER", "TEXT"]
DEC_BACK = ["UPER", "OER", "CXER"]


IOC_MODULE = """IOT DEFINITIONS AUTOMATIC TAGS ::= BEGIN
A ::= INTEGER
B ::= IA5String
P ::= SEQUENCE { x INTEGER, y INTEGER }
L ::= SEQUENCE OF BOOLEAN
Frame ::= SEQUENCE { ident FS.&id({FT}), value FS.&Type({FT}{@ident}) }
FS ::= CLASS { &id INTEGER UNIQUE, &Type } WITH SYNTAX { &Type IDENTIFIED BY &id }
FT FS ::= { { A IDENTIFIED BY 1 } | { B IDENTIFIED BY 2 } | { P IDENTIFIED BY 3 } | { L IDENTIFIED BY 4 } }
END
"""
# frames for each row, an identifier without a row, and a row identifier with another row's bytes
IOC_FRAMES = ["3008800101a103020105", "3009800102a10416026869", "300d800103a1083006800101810102", "300d800104a10830060101ff010100",
              "3008800109a103020105", "3008800102a103020105", "3008800101a10302017f", "3009800102a10416027a7a", "300d800103a10830068001fe810103",
              "300a800104a10530030101ff", "3008800103a103020105", "30098001ffa10416026869"]


def case_ops(tname, ref, own, rng, timekind):
    """script of one (type, value): decode, all encoders, decode the library's own output again, validate, print, compare, free"""
    ops = ["dec s=0 t=%s syn=BER in=%s" % (tname, ref.hex())]
    encs = list(ENC)
    rng.shuffle(encs)
    for s in encs:
        ops.append("enc s=0 syn=%s" % s)
    ops.append("chk s=0")
    ops.append("prt s=0")
    if timekind:
        ops.append("gt s=0")
    for s in DEC_BACK:
        x = own.get(s)
        if x:
            ops += ["dec s=1 t=%s syn=%s in=%s" % (tname, s, x), "cmp a=0 b=1", "enc s=1 syn=DER", "free s=1"]
    ops.append("free s=0")
    return ops


def parse_out(text):
    """-> ({tid: [result lines]}, [(tid, opidx, op, type, t0, t1)])"""
    logs, times = {}, []
    cur = None
    for line in text.splitlines():
        if line.startswith("T "):
            cur = int(line[2:])
            logs[cur] = []
        elif line.startswith("R ") and cur is not None:
            logs[cur].append(line)
        elif line.startswith("t "):
            p = line.split(" ")
            times.append((int(p[1]), int(p[2]), p[3], p[4], int(p[5]), int(p[6])))
    return logs, times


def overlaps(times, kind_of):
    """distinct unordered pairs of (op, kind) that were executing at the same time on two different threads"""
    ev = sorted(times, key=lambda x: x[4])
    active = []     # (t1, tid, key)
    pairs = set()
    n = 0
    for tid, idx, op, ty, t0, t1 in ev:
        active = [a for a in active if a[0] > t0]
        k = (op, kind_of.get(ty, ty))
        for a in active:
            if a[1] != tid:
                pairs.add(tuple(sorted((k, a[2]))))
                n += 1
        active.append((t1, tid, k))
    return pairs, n


TSAN_HDR = re.compile(r"WARNING: ThreadSanitizer: ([^\n(]+)")


def tsan_reports(logdir):
    reps = []
    for f in glob.glob(os.path.join(logdir, "tsan.*")):
        txt = open(f, errors="replace").read()
        for block in txt.split("==================\n"):
            m = TSAN_HDR.search(block)
            if not m:
                continue
            frames = re.findall(r"#\d+ (\S+) (\S+?):\d+", block)
            lib = [fn for fn, path in frames if "/skeletons/" in path or "/out/" in path]
            # de-duplicate by kind + the two innermost library functions
            key = (m.group(1).strip(), tuple(sorted(set(lib[:1] + [fn for fn, path in frames if "/skeletons/" in path][-1:]))))
            reps.append((key, block[:3000], bool(lib)))
    return reps


def prepare_cases(tc, b, ms, prof, quick):
    # the library's own outputs (for decoding back) come from the ASan build of the same module
    a = harness.make(tc, ms, prof, atoms=14, composites=8)
    kind_of = {n: b.mod.resolve(t).kind for n, t in b.mod.types.items()}
    cases = []
    acases, ameta = [], {}
    cid = 0
    for tname, t in b.mod.types.items():
        vals = b.gen.values(t, 2 if quick else 4)
        k_ = kind_of.get(tname)
        if k_ == "GeneralizedTime":
            # local time without zone designator, fractions, explicit offsets: the conversion paths that go through libc
            vals += ["20351231235959", "20351231235959.25", "19991231235959+0130", "2035123123", "203512312359-0800"]
        elif k_ == "UTCTime":
            vals += ["351231235959", "3512312359", "351231235959+0130", "9912312359-0800"]
        for v in vals:
            ref = harness.ref_der(b, t, v)
            if ref is None or len(ref) > 4000:
                continue
            cid += 1
            acases.append(drv.Case(cid, ["dec s=0 t=%s syn=BER in=%s" % (tname, drv.hx(ref))] + ["enc s=0 syn=%s" % s for s in DEC_BACK]))
            ameta[cid] = (tname, ref)
    own = {}
    if a.exe:
        res = drv.run_parallel(a.exe, acases)
        for c, (tname, ref) in ameta.items():
            r = res.get(c)
            o = {}
            if r is not None and r.status == "ok" and len(r.events) >= 1 + len(DEC_BACK):
                for i, s in enumerate(DEC_BACK):
                    out = r.events[1 + i].get("out")
                    if out not in (None, "-") and r.events[1 + i].get("rc") not in ("-1", None) and len(out) < 8000:
                        o[s] = out
            elif r is not None and r.status != "ok":
                continue        # values that crash the library single-threaded belong to C01/C04
            own[c] = o
    for c, (tname, ref) in ameta.items():
        if c in own:
            cases.append((tname, ref, own[c]))
    return kind_of, cases


def run(tier, seed):
    chk = core.Check("C19", tier, seed)
    quick = tier == "quick"
    rng = random.Random(seed)
    chk.rule = ("ThreadSanitizer build of the skeletons + generated code; N in {2,4,8,16} threads each run a deterministic script over their own "
                "structures of shared type descriptors (BER decode, every encoder in shuffled order, asn_check_constraints, print, asn_GT2time/UT2time on "
                "time types, decode of the library's own UPER/OER/XER output, compare, free; also on an information-object-set module and on the shipped X.509 and LDAP "
                "specifications with their sample PDUs), scripts rotated so that different (operation, type kind) "
                "pairs meet; all threads start behind a barrier and yield/sleep a seeded random while between calls; repeated with different seeds and "
                "thread counts; oracle: (1) every thread's result log equals the log of the same script run alone, (2) no ThreadSanitizer report with a "
                "library or generated-code frame; evidence: runs, calls, distinct overlapping (op, kind) pairs actually observed from per-call "
                "CLOCK_MONOTONIC stamps; distinct = those pairs")
    chk.assumptions = ["TSan sees only executed paths and the synchronisation it intercepts; schedules are sampled, not enumerated",
                       "asn_random_fill is not driven (it draws from the process-wide random(3) sequence by design, results are not reproducible per thread)"]
    tc = build.toolchain()
    nmod = 1 if quick else 4
    runs = 6 if quick else 40
    prof = gen.profile(max_len=10)
    allpairs = set()
    ncalls = 0
    nruns = 0
    for mi in range(nmod + 3):
        ms = seed * 1000 + 1900 + mi
        ioc = mi == nmod        # a module with an information object set (generated type selectors, open types)
        real = {nmod + 1: "PKIX1", nmod + 2: "LDAP3"}.get(mi)    # the shipped X.509 / LDAP specifications, shipped sample PDUs
        if real:
            from .. import realpdu
            b = realpdu.make(tc, real, variant="tsan", driver="tdriver", wrap_alloc=False)
            a = realpdu.make(tc, real)
            cases = []
            kind_of = {}
            for spec, pdu, syn, label, data in realpdu.samples(tc, [real]):
                o = {}
                if a.exe:
                    r_ = drv.run_cases(a.exe, [drv.Case(1, ["dec s=0 t=%s syn=%s in=%s" % (pdu, syn, drv.hx(data))] + ["enc s=0 syn=%s" % s_ for s_ in DEC_BACK])]).get(1)
                    if r_ is not None and r_.status == "ok" and len(r_.events) >= 1 + len(DEC_BACK):
                        for i_, s_ in enumerate(DEC_BACK):
                            out = r_.events[1 + i_].get("out")
                            if out not in (None, "-", "trunc", "q") and r_.events[1 + i_].get("rc") not in ("-1", None) and len(out) < 80000:
                                o[s_] = out
                kind_of[pdu] = "real:" + pdu
                cases += [(pdu, data, o)] * 4
        elif ioc:
            d0 = build.scratch_dir("c19ioc")
            with open(os.path.join(d0, "IOT.asn1"), "w") as f:
                f.write(IOC_MODULE)
            try:
                exe, p_ = build.compile_module(tc, [os.path.join(d0, "IOT.asn1")], os.path.join(d0, "out"), variant="tsan", driver="tdriver", wrap_alloc=False)
            except build.BuildError as e:
                exe, p_ = None, None
            if exe is None:
                chk.inconcl("object-set module not built")
                continue
            b = harness.Built()
            b.exe, b.text = exe, IOC_MODULE
            kind_of = {"Frame": "SEQUENCE+open-type"}
            cases = [("Frame", bytes.fromhex(h), {}) for h in IOC_FRAMES]
        else:
            b = harness.make(tc, ms, prof, atoms=14, composites=8, variant="tsan", driver="tdriver", wrap_alloc=False)
        if b.exe is None:
            chk.inconcl("module not built (%s)" % b.error[0])
            continue
        if not ioc and not real:
            kind_of, cases = prepare_cases(tc, b, ms, prof, quick)
        if len(cases) < (8 if not real else 1):
            chk.inconcl("too few cases")
            continue
        d = build.scratch_dir("c19")
        for ri in range(runs):
            nthreads = [2, 4, 8, 16][ri % 4]
            r2 = random.Random(seed * 7919 + mi * 131 + ri)
            script = []
            per = max(4, min(len(cases), (24 if quick else 60)))
            for tid in range(nthreads):
                script.append("T %d" % tid)
                # rotation: thread k starts k*stride cases further, so that different types/ops meet
                order = list(range(len(cases)))
                r2.shuffle(order)
                for ci in order[:per]:
                    tname, ref, o = cases[ci]
                    script += case_ops(tname, ref, o, r2, kind_of.get(tname) in ("GeneralizedTime", "UTCTime"))
            sp = os.path.join(d, "s%d.txt" % ri)
            open(sp, "w").write("\n".join(script) + "\n")
            logdir = os.path.join(d, "tsan%d" % ri)
            os.makedirs(logdir, exist_ok=True)
            env = dict(os.environ, TSAN_OPTIONS="halt_on_error=0:log_path=%s/tsan:history_size=3:exitcode=0" % logdir, TZ="UTC", LC_ALL="C")
            try:
                pseq = subprocess.run([b.exe, sp, "seq"], stdout=subprocess.PIPE, stderr=subprocess.PIPE, env=env, timeout=600)
                pcon = subprocess.run([b.exe, sp, "jitter=%d" % (seed * 1000 + ri)], stdout=subprocess.PIPE, stderr=subprocess.PIPE, env=env, timeout=600)
            except subprocess.TimeoutExpired:
                chk.inconcl("run timed out")
                continue
            nruns += 1
            replay = {"module": b.text, "script": sp, "threads": nthreads, "jitter": seed * 1000 + ri}
            if pseq.returncode != 0 or b"DONE" not in pseq.stdout:
                chk.inconcl("sequential reference run failed (rc=%d): %s" % (pseq.returncode, pseq.stderr.decode("latin-1")[-200:]))
                continue
            lseq, _ = parse_out(pseq.stdout.decode("latin-1"))
            if pcon.returncode != 0 or b"DONE" not in pcon.stdout:
                chk.evaluations += 1
                chk.violation({"symptom": "concurrent-run-died", "rc": pcon.returncode},
                              "%d threads: the concurrent run ended with status %d where the sequential run of the same scripts completes: %s" % (
                                  nthreads, pcon.returncode, " ".join(pcon.stderr.decode("latin-1")[-300:].split())),
                              dict(replay, script_text="\n".join(script)[:20000], stderr=pcon.stderr.decode("latin-1")[-3000:]))
                continue
            # the reference DER of every case was accepted by the single-threaded generic driver: a thread must accept it too,
            # with or without the shared codec context
            for tid in (sorted(lseq) if not ioc else []):
                bad = [l for l in lseq[tid] if l.startswith("R dec syn=BER ") and " rc=0 " not in l + " "]
                chk.evaluations += 1
                if bad:
                    chk.violation({"symptom": "decode-in-thread-refused", "syntax": "BER"},
                                  "thread %d, run alone: BER decode of a reference encoding that the single-threaded driver accepts answers '%s' (%d such calls)" % (
                                      tid, bad[0][:60], len(bad)), dict(replay, script_text="\n".join(script)[:20000]))
                    break
            lcon, times = parse_out(pcon.stdout.decode("latin-1"))
            pairs, npair = overlaps(times, kind_of)
            allpairs |= pairs
            ncalls += len(times)
            for tid in range(nthreads):
                s, c = lseq.get(tid, []), lcon.get(tid, [])
                chk.evaluations += max(1, len(s))       # every result line of the thread is compared
                if s != c:
                    k = next((i for i in range(min(len(s), len(c))) if s[i] != c[i]), min(len(s), len(c)))
                    chk.violation({"symptom": "result-differs-from-sequential", "op": (s[k].split(" ")[1] if k < len(s) else "?")},
                                  "%d threads: thread %d result #%d differs from the same script run alone: alone %s / concurrent %s" % (
                                      nthreads, tid, k, (s[k] if k < len(s) else "-")[:120], (c[k] if k < len(c) else "-")[:120]),
                                  dict(replay, script_text="\n".join(script)[:20000]))
                else:
                    chk.count("thread_logs_equal")
            seenkeys = set()
            for key, block, lib in tsan_reports(logdir):
                if key in seenkeys:
                    continue
                seenkeys.add(key)
                chk.evaluations += 1
                if lib:
                    chk.violation({"symptom": "tsan-report", "kind": key[0], "frames": "/".join(key[1])},
                                  "ThreadSanitizer: %s in %s (%d threads)" % (key[0], "/".join(key[1]) or "?", nthreads),
                                  dict(replay, script_text="\n".join(script)[:20000], report=block))
                else:
                    chk.count("tsan_report_without_library_frame")
            for f in glob.glob(os.path.join(logdir, "tsan.*")):
                os.unlink(f)
            if len(chk.samples) < 4:
                chk.sample({"threads": nthreads, "calls": len(times), "overlapping_pairs_in_this_run": len(pairs), "overlap_events": npair,
                            "example_pairs": [list(map(list, p)) for p in sorted(pairs)[:4]], "script_head": script[:6]})
    for p in allpairs:
        chk.seen(p)
    chk.extra["runs"] = nruns
    chk.extra["library_calls_timed"] = ncalls
    chk.extra["distinct_overlapping_op_kind_pairs"] = len(allpairs)
    if nruns and len(allpairs) < 20:
        chk.inconcl("too little overlap observed (%d pairs)" % len(allpairs))
    return chk.finish()
