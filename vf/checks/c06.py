"""C06 -- canonical encodings depend only on the abstract value, not on its
in-memory representation or on the (non-canonical) encoding it was decoded from."""
import os, random
from .. import build, core, drv, harness, taboo
from ..asn import gen, model, der
from . import variants

CANON = ["DER", "CXER", "UPER", "OER"]
XFS = ["permute", "reverse", "padint", "default", "dirtybits", "nansign"]


def dirty_unused_bits(tree, rng):
    """BER: the unused bits of the last BIT STRING octet may have any value (DER demands zero)"""
    changed = [False]

    def visit(n):
        if n.constructed:
            for c in n.children:
                visit(c)
        elif n.bits_unused:
            b = bytearray(n.content)
            noise = rng.getrandbits(n.bits_unused) | 1
            b[-1] |= noise & ((1 << n.bits_unused) - 1)
            n.content = bytes(b)
            changed[0] = True
    visit(tree)
    return changed[0]


def run(tier, seed):
    chk = core.Check("C06", tier, seed)
    quick = tier == "quick"
    rng = random.Random(seed)
    chk.rule = ("base structure = decode(reference DER of v); equivalent representations: (a) walker transformations in memory -- SET OF array permuted / "
                "reversed, INTEGER octets sign-extended (wide types), absent DEFAULT materialised through default_value_set, noise in BIT STRING unused bits; "
                "(b) decoding valid non-canonical BER of the same value -- SET and SET OF members reordered, DEFAULT present, non-zero unused bits, "
                "constructed strings, long/indefinite lengths; judged: DER, CANONICAL-XER, canonical UPER and OER output byte-identical to the base "
                "structure's and compare_struct == 0; default and -fwide-types builds; distinct = distinct (type, value, representation)")
    chk.assumptions = ["only value-preserving transformations are applied; a transformation that finds no site in the value is not counted"]
    tc = build.toolchain()
    tb = {s: taboo.Taboo("C06") for s in CANON}["DER"]
    nmod = int(os.environ.get("VERIF_NMOD", 3 if quick else 30))
    prof = gen.profile(max_len=10, named_bits=False)
    seeds = [seed * 1000 + 600 + i for i in range(nmod)]
    builds = harness.make_many(tc, seeds, prof, atoms=10, composites=10)
    builds += harness.make_many(tc, [s + 50 for s in seeds[: max(1, nmod // 2)]], prof, atoms=8, composites=8, options=("-fwide-types",))
    from ..asn import shapes
    builds.append(harness.make(tc, seed * 1000 + 698, prof, module_fn=lambda g: shapes.build4("EQ")))
    builds.append(harness.make(tc, seed * 1000 + 699, prof, module_fn=lambda g: shapes.build4("EQ"), options=("-fwide-types",)))
    for b in builds:
        if b.exe is None:
            chk.inconcl("module not built (%s)" % b.error[0])
            continue
        enc = der.Encoder(b.mod)
        cases, meta = [], {}
        cid = 0
        for tname, t in b.mod.types.items():
            for v in (shapes.values4(b.mod, tname, rng, quick) if b.mod.name == "EQ" else b.gen.values(t, 3 if quick else 8)):
                try:
                    tree = enc.tree(t, v)
                except der.Unsupported:
                    continue
                ref = der.serialize(tree)
                ops = ["dec s=0 t=%s syn=BER in=%s" % (tname, drv.hx(ref))] + ["enc s=0 syn=%s" % s for s in CANON]
                plan = []
                for xf in XFS:
                    ops += ["dec s=1 t=%s syn=BER in=%s" % (tname, drv.hx(ref)), "xf s=1 kind=%s seed=%d" % (xf, rng.randrange(1 << 20))] + \
                           ["enc s=1 syn=%s" % s for s in CANON] + ["cmp a=0 b=1", "free s=1"]
                    plan.append(("xf:" + xf, None))
                vars_ = []
                if len(ref) < 3000:
                    vars_ += variants.ber_semantic_variants(rng, b.mod, t, v, enc, (8 if b.mod.name == "EQ" else 2) if quick else 6,
                                                            time_kinds=("GeneralizedTime", "UTCTime"))
                    vars_ += [(f, x) for f, x in variants.ber_variants(rng, tree, 1) if "cstrtagged" not in f and "indefmix" not in f][:3]
                    t2 = der.Encoder(b.mod).tree(t, v)
                    if dirty_unused_bits(t2, rng):
                        vars_.append(("dirty-unused-bits", der.serialize(t2)))
                rk0 = b.mod.resolve(t).kind
                if rk0 in ("GeneralizedTime", "UTCTime") and isinstance(v, str):
                    # every non-DER notation of this very value, one at a time
                    for form in der.TIME_FORMS:
                        v2 = der.time_variant(rk0, v, rng, form)
                        if v2 != v:
                            vars_.append(("time-form", der.Encoder(b.mod).encode(t, v2)))
                for fam, vb in vars_:
                    if "unknown-ext" in fam or "cstrtagged" in fam or "indefmix" in fam:
                        continue
                    ops += ["dec s=1 t=%s syn=BER in=%s" % (tname, drv.hx(vb)), "xf s=1 kind=none"] + \
                           ["enc s=1 syn=%s" % s for s in CANON] + ["cmp a=0 b=1", "free s=1"]
                    plan.append(("ber:" + fam, vb))
                cid += 1
                cases.append(drv.Case(cid, ops))
                meta[cid] = (tname, t, v, ref, plan)
        res = drv.run_parallel(b.exe, cases)
        for cid, (tname, t, v, ref, plan) in meta.items():
            r = res.get(cid)
            if r is None or r.status == "notrun":
                chk.inconcl("case not run")
                continue
            rt = b.mod.resolve(t)
            ev = r.events
            replay = {"module": b.text, "options": b.options, "pdu": tname, "value": gen.value_repr(v, 1500), "ref_der": ref.hex()}
            ids = {s: taboo.ids(b.mod, t, v, s) for s in CANON}
            if r.status in ("crash", "hang"):
                kind, frame = drv.classify_report(r.stderr)
                from .c04 import static_flags
                chk.evaluations += 1
                chk.violation({"symptom": r.status, "report": kind, "frame": frame, "kind": rt.kind,
                               "has_set": static_flags(b.mod, t)["has_set"], "syntax": "-"},
                              "%s (%s in %s) while encoding a transformed structure of %s" % (r.status, kind, frame, tname),
                              dict(replay, stderr=r.stderr[-2000:]))
                continue
            if not ev or ev[0].get("rc") != "OK":
                chk.inconcl("entry decode failed (C03)")
                continue
            base = {s: ev[1 + i] for i, s in enumerate(CANON)}
            from .c05 import kinds_in
            kk = kinds_in(b, t)
            timekinds = ("G" if "GeneralizedTime" in kk else "") + ("U" if "UTCTime" in kk else "") or "-"
            i = 5
            for what, vb in plan:
                if i + 7 >= len(ev) + 1:
                    break
                d, x = ev[i], ev[i + 1]
                outs = {s: ev[i + 2 + j] for j, s in enumerate(CANON)}
                c = ev[i + 6]
                i += 8
                if what.startswith("xf:") and x.get("count", "0") == "0":
                    continue        # nothing to transform in this value
                if d.get("rc") != "OK":
                    chk.inconcl("variant not decodable (C03)")
                    continue
                chk.evaluations += 1
                chk.seen((b.seed, tname, ref, what, vb))
                chk.count("rep_" + what.split("+")[0])
                for s in CANON:
                    if int(base[s].get("rc", -1)) < 0:
                        continue        # not encodable at all in this syntax: C01's business
                    fids = tb.hit(ids[s])
                    if outs[s].get("out") != base[s].get("out") or outs[s].get("rc") != base[s].get("rc"):
                        chk.violation({"symptom": "canonical-encoding-differs", "syntax": s, "representation": what.split(":")[0] + ":" + what.split(":")[1].split("+")[0],
                                       "rep_full": what, "kind": rt.kind, "fids": fids, "wide": "-fwide-types" in b.options,
                                       "timekinds": timekinds if "time-form" in what else "-"},
                                      "%s %s: %s of an equivalent representation (%s) is %s, base structure gives %s; value %s" % (
                                          tname, model.type_text(t, 0)[:90].replace("\n", " "), s, what, (outs[s].get("out") or "rc=" + str(outs[s].get("rc")))[:70],
                                          (base[s].get("out") or "")[:70], gen.value_repr(v, 80)),
                                      dict(replay, representation=what, variant_hex=vb.hex() if vb else None, syntax=s,
                                           expected=base[s].get("out"), observed=outs[s].get("out")),
                                      disc={"ids": sorted(ids[s]), "type": model.type_text(t, 0), "syntax": s})
                if c.get("rc") != "0":
                    chk.violation({"symptom": "compare-nonzero", "syntax": "-", "representation": what.split(":")[0] + ":" + what.split(":")[1].split("+")[0],
                                   "rep_full": what, "kind": rt.kind, "fids": tb.hit(ids["DER"]), "wide": "-fwide-types" in b.options,
                                   "timekinds": timekinds if "time-form" in what else "-"},
                                  "%s: compare_struct(base, %s representation) = %s; value %s" % (tname, what, c.get("rc"), gen.value_repr(v, 80)),
                                  dict(replay, representation=what, variant_hex=vb.hex() if vb else None),
                                  disc={"ids": sorted(ids["DER"]), "type": model.type_text(t, 0), "syntax": "DER"})
            if len(chk.samples) < 6:
                chk.sample({"pdu": tname, "type": model.type_text(t, 0)[:120], "value": gen.value_repr(v, 80), "representations": [w for w, _ in plan][:10]})
    return chk.finish()
