"""C17 -- OBJECT IDENTIFIER / RELATIVE-OID arc helpers and GeneralizedTime /
UTCTime helpers round-trip and match X.690, under several TZ settings."""
import datetime, os, random
from .. import build, core, drv
from ..asn import der
from .c16 import build_hdriver, run_script, fields

U32 = (1 << 32) - 1
ARC_EDGES = [0, 1, 39, 40, 79, 80, 127, 128, 16383, 16384, (1 << 21) - 1, 1 << 21, (1 << 28) - 1, 1 << 28,
             (1 << 31) - 1, 1 << 31, U32 - 80, U32 - 79, U32 - 1, U32]

TZS = ["UTC", "EST5EDT,M3.2.0,M11.1.0", "IST-5:30", "<+1245>-12:45<+1345>,M9.5.0/2:45,M4.1.0/3:45",
       "NST3:30NDT,M3.2.0,M11.1.0", "Europe/London", "America/St_Johns", "Asia/Kathmandu", "Australia/Lord_Howe",
       "Pacific/Kiritimati"]

EPOCH = datetime.datetime(1970, 1, 1)


def canon(t, fv=0, fd=0, utc2=False):
    dt = EPOCH + datetime.timedelta(seconds=t)
    s = "%04d%02d%02d%02d%02d%02d" % (dt.year, dt.month, dt.day, dt.hour, dt.minute, dt.second)
    if utc2:
        return s[2:] + "Z"
    if fd > 0:
        frac = ("%0*d" % (fd, fv)).rstrip("0")
        if frac:
            s += "." + frac
    return s + "Z"


def oid_lines(rng, quick):
    lines, meta = [], []
    vecs = []
    firsts = [(a0, a1) for a0 in (0, 1) for a1 in (0, 1, 39, 40, 100)] + \
             [(2, a1) for a1 in (0, 39, 40, 47, 175, U32 - 81, U32 - 80, U32 - 79, U32)] + [(3, 0), (4, 5), (U32, 1)]
    for f in firsts:
        vecs.append(list(f))
        for e in ARC_EDGES:
            vecs.append(list(f) + [e])
        vecs.append(list(f) + ARC_EDGES[:18])
    for _ in range(300 if quick else 20000):
        n = rng.choice([2, 3, 4, 5, 8, 12, 20])
        a0 = rng.choice([0, 1, 2])
        a1 = rng.randrange(0, 40) if a0 < 2 else rng.choice([rng.randrange(0, 200), rng.randrange(0, U32 - 80)])
        vecs.append([a0, a1] + [rng.choice(ARC_EDGES + [rng.getrandbits(rng.choice([7, 8, 14, 21, 28, 32]))])
                                for _ in range(n - 2)])
    # vectors whose every arc needs the maximal five octets (buffer estimates), of growing length
    for n in (1, 2, 3, 4, 5, 6, 7, 10, 12, 20, 40, 62):
        vecs.append([2, U32 - 81] + [U32] * n)
        vecs.append([2, U32 - 80 - n] + [U32 - i for i in range(n)])
        vecs.append([1, 2] + [(1 << 28) + i for i in range(n)])
        vecs.append([0, 39] + [U32, 1 << 28] * (n // 2 + 1))
    vecs = [v[:60] for v in vecs]
    vecs += [[], [1], [0], [2]]
    for v in vecs:
        lines.append("oidset %s" % (",".join(map(str, v)) or "-"))
        meta.append(("oidset", v))
        if v:
            lines.append("roidset %s" % ",".join(map(str, v)))
            meta.append(("roidset", v))
        if len(v) >= 1:
            txt = ".".join(map(str, v))
            lines.append("oidparse %s" % txt.encode().hex())
            meta.append(("oidparse", v))
    # raw octet strings: valid, non-minimal (leading 0x80), unterminated, overflowing
    raws = []
    for v in vecs[:400]:
        if len(v) >= 2 and v[0] <= 2 and (v[0] == 2 or v[1] < 40) and v[0] * 40 + v[1] <= U32:
            raws.append(("valid", der.oid_octets(v), v))
    for _ in range(200 if quick else 5000):
        n = rng.randrange(1, 12)
        raws.append(("random", bytes(rng.getrandbits(8) for _ in range(n)), None))
    for base in (b"\x2a", b"\x2a\x03", b"\x51"):
        raws.append(("unterminated", base + b"\x81", None))
        raws.append(("unterminated", base + b"\xff\xff", None))
        raws.append(("leading80", base + b"\x80\x01", None))
        raws.append(("leading80", base + b"\x80\x80\x7f", None))
        for k in (5, 6, 9, 10):
            raws.append(("overflow", base + b"\xff" * (k - 1) + b"\x7f", None))
        raws.append(("overflow", base + b"\x90\x80\x80\x80\x00", None))   # 2^32
        raws.append(("fits", base + b"\x8f\xff\xff\xff\x7f", None))       # 2^32-1
    raws.append(("empty", b"", None))
    for kind, o, v in raws:
        lines.append("oidget %s" % (o.hex() or "-"))
        meta.append(("oidget", (kind, o, v)))
        lines.append("roidget %s" % (o.hex() or "-"))
        meta.append(("roidget", (kind, o, v)))
    for e in ARC_EDGES + [rng.getrandbits(32) for _ in range(50)]:
        for sz in (0, 1, 2, 3, 4, 5, 6):
            lines.append("arc %d %d" % (e, sz))
            meta.append(("arc", (e, sz)))
    # malformed texts: safety + no bogus success
    for txt in ["", ".", "1.", ".1", "1..2", "1.2.", "a", "1.a", "1.2.3x", " 1.2", "1 .2", "1. 2", "4294967296.1",
                "1.4294967296", "1.99999999999999999999", "1.2.-3", "-1.2", "+1.2", "1.2.3.4.5.6.7.8.9.10" * 8]:
        lines.append("oidparse %s" % (txt.encode().hex() or "-"))
        meta.append(("oidparse-mal", txt))
    return lines, meta


def subids(o):
    """independent base-128 parse -> list of ints or None if malformed (unterminated)"""
    out, cur, started = [], 0, False
    lead80 = False
    for b in o:
        if not started and b == 0x80:
            lead80 = True
        started = True
        cur = (cur << 7) | (b & 0x7f)
        if not b & 0x80:
            out.append(cur)
            cur, started = 0, False
    if started:
        return None, lead80
    return out, lead80


def check_oid(chk, lines, meta, res):
    for (kind, info), li, lo in zip(meta, lines, res):
        f = fields(lo)
        chk.seen(li)
        if kind in ("oidset", "roidset"):
            v = info
            rel = kind == "roidset"
            if rel:
                valid = len(v) >= 1
                maybe = False
            else:
                valid = len(v) >= 2 and v[0] <= 2 and (v[1] <= 39 or v[0] == 2) and (v[0] * 40 + v[1] <= U32)
                maybe = len(v) >= 2 and v[0] == 2 and v[0] * 40 + v[1] > U32   # not representable on read-back
            if f.get("rc") != "0":
                if valid:
                    chk.violation({"op": kind, "symptom": "rejected-valid"},
                                  "%s(%s) failed rc=%s errno=%s" % (kind, v, f.get("rc"), f.get("errno")),
                                  {"line": li, "got": lo})
                continue
            if not valid and not maybe:
                if not (rel and len(v) == 0):
                    chk.violation({"op": kind, "symptom": "accepted-invalid"},
                                  "%s(%s) accepted an invalid arc vector, stored %s" % (kind, v, f.get("out")),
                                  {"line": li, "got": lo})
                continue
            exp = der.oid_octets(v, relative=rel).hex() or "-"
            if f["out"] != exp:
                chk.violation({"op": kind, "symptom": "octets"},
                              "%s(%s) stored %s, X.690 8.19/8.20 gives %s" % (kind, v, f["out"], exp),
                              {"line": li, "got": lo})
                continue
            if maybe:
                continue
            back = [int(x) for x in f["arcs"].split(",")] if f.get("arcs", "-") != "-" else []
            if f.get("count") != str(len(v)) or back != v:
                chk.violation({"op": kind, "symptom": "roundtrip"},
                              "%s(%s) read back as count=%s %s" % (kind, v, f.get("count"), back),
                              {"line": li, "got": lo})
        elif kind == "oidparse":
            v = info
            ok = all(0 <= a <= U32 for a in v)
            cnt = int(f["count"])
            back = [int(x) for x in f["arcs"].split(",")] if f.get("arcs", "-") != "-" else []
            if ok:
                txtlen = len(".".join(map(str, v)))
                if cnt != len(v) or back != v[:64] or int(f["end"]) != txtlen:
                    chk.violation({"op": "oidparse", "symptom": "misparsed"},
                                  "parse_arcs(%s) -> count=%d arcs=%s end=%s" % (v, cnt, back[:8], f["end"]),
                                  {"line": li, "got": lo})
            elif cnt >= 0:
                chk.violation({"op": "oidparse", "symptom": "overflow-accepted"},
                              "parse_arcs(%s) accepted an arc beyond 32 bits: %s" % (v, back[:8]),
                              {"line": li, "got": lo})
        elif kind == "oidparse-mal":
            txt = info
            cnt = int(f["count"])
            bad_must = txt in (".", ".1", "1..2", "a", "4294967296.1", "1.4294967296", "1.99999999999999999999",
                               "-1.2")
            if bad_must and cnt >= 0 and int(f["end"]) == len(txt):
                chk.violation({"op": "oidparse", "symptom": "malformed-accepted", "text": txt},
                              "parse_arcs(%r) returned %d consuming the whole text" % (txt, cnt),
                              {"line": li, "got": lo})
        elif kind in ("oidget", "roidget"):
            k2, o, v = info
            rel = kind == "roidget"
            subs, lead80 = subids(o)
            cnt = int(f["count"])
            back = [int(x) for x in f["arcs"].split(",")] if f.get("arcs", "-") != "-" else []
            if subs is None or len(o) == 0:
                if cnt > 0 and subs is None:
                    chk.violation({"op": kind, "symptom": "unterminated-accepted"},
                                  "get_arcs(%s) returned %d arcs for an unterminated sub-identifier" % (o.hex(), cnt),
                                  {"line": li, "got": lo})
                continue
            if rel:
                exp = subs
            else:
                first = subs[0]
                a0 = 0 if first < 40 else (1 if first < 80 else 2)
                exp = [a0, first - 40 * a0] + subs[1:]
            if any(a > U32 for a in exp):
                if cnt >= 0:
                    chk.violation({"op": kind, "symptom": "overflow-accepted"},
                                  "get_arcs(%s) returned count=%d %s although a sub-identifier exceeds 32 bits" % (
                                      o.hex(), cnt, back[:6]), {"line": li, "got": lo})
                continue
            if cnt < 0:
                if not lead80:
                    chk.violation({"op": kind, "symptom": "rejected-valid"},
                                  "get_arcs(%s) failed on well-formed contents (arcs %s)" % (o.hex(), exp[:8]),
                                  {"line": li, "got": lo})
                continue
            if cnt != len(exp) or back != exp[:64]:
                chk.violation({"op": kind, "symptom": "value"},
                              "get_arcs(%s) -> count=%d %s, expected %s" % (o.hex(), cnt, back[:8], exp[:8]),
                              {"line": li, "got": lo})
        elif kind == "arc":
            e, sz = info
            need = len(der.oid_octets([e], relative=True))
            w = int(f["w"])
            if sz < need:
                if w != -1:
                    chk.violation({"op": "arc", "symptom": "short-buffer"},
                                  "set_single_arc(%d) into %d bytes returned %d" % (e, sz, w), {"line": li, "got": lo})
            else:
                if w != need or f["out"] != der.oid_octets([e], relative=True).hex() or int(f["back"]) != e \
                        or int(f["g"]) != need:
                    chk.violation({"op": "arc", "symptom": "value"},
                                  "single arc %d: wrote %s (%d), read back %s (%s)" % (e, f["out"], w, f["back"], f["g"]),
                                  {"line": li, "got": lo})


def time_lines(rng, quick):
    lines, meta = [], []
    ts = [0, 1, -1, 59, 60, 86399, 86400, 2 ** 31 - 1, 2 ** 31, 2 ** 31 + 1, -2 ** 31, 951782400, 951868800,
          946684799, 946684800, 4102444799, 4102444800, 253402300799, -62135596800, -62135596800 + 86400 * 2,
          1109548800, 1078099199, 68169600]
    # DST switch instants of several zones/years and year ends
    for y in range(1970, 2040, 3 if quick else 1):
        for mo, d in ((3, 8), (3, 14), (3, 31), (4, 1), (4, 7), (9, 24), (9, 30), (10, 25), (10, 31), (11, 1), (11, 7),
                      (12, 31), (1, 1), (2, 28), (2, 29) if y % 4 == 0 else (2, 28)):
            base = int((datetime.datetime(y, mo, d) - EPOCH).total_seconds())
            for h in (0, 1, 2, 3, 5, 12, 23):
                ts.append(base + h * 3600 + rng.choice([0, 1799, 1800, 3599]))
    for _ in range(400 if quick else 30000):
        ts.append(rng.randrange(-62135596800 + 86400 * 2, 253402300799 - 86400 * 2))
        ts.append(rng.randrange(-2 ** 31, 2 ** 32))
    # both ends of every decade of the UTCTime window
    for y in range(1960, 2061, 10):
        base = int((datetime.datetime(y, 1, 1) - EPOCH).total_seconds())
        ts += [base - 1, base, base + 1, base + 86400 * 200, base + 86400 * 365 * 5]
    for t in ts:
        fd = rng.choice([0, 0, 1, 2, 3, 6, 9])
        fv = rng.randrange(0, 10 ** fd) if fd else 0
        if rng.random() < 0.2 and fd:
            fv = (fv // 10) * 10     # trailing zero
        lines.append("t2gt %d %d %d" % (t, fv, fd))
        meta.append(("t2gt", (t, fv, fd)))
        if -315619200 <= t <= 2840140799:     # 1960-01-01 .. 2059-12-31: the library's own window (YY >= 60 -> 19YY)
            lines.append("t2ut %d" % t)
            meta.append(("t2ut", t))
    return lines, meta


def check_time(chk, tz, lines, meta, res):
    for (kind, info), li, lo in zip(meta, lines, res):
        f = fields(lo)
        chk.seen((tz, li))
        if "text" not in f:
            chk.violation({"op": kind, "symptom": "failed", "tz": tz}, "%s failed under TZ=%s: %s" % (li, tz, lo),
                          {"line": li, "got": lo, "tz": tz})
            continue
        text = bytes.fromhex(f["text"]).decode("latin-1") if f["text"] != "-" else ""
        if kind == "t2gt":
            t, fv, fd = info
            exp = canon(t, fv, fd)
            era = "far" if not (0 <= t < 2 ** 31) else "near"
            if text != exp:
                chk.violation({"op": "time2GT", "symptom": "text", "tz": tz, "era": era, "frac": fd > 0},
                              "TZ=%s asn_time2GT_frac(t=%d,%d/%d) = %s, canonical is %s" % (tz, t, fv, fd, text, exp),
                              {"line": li, "got": lo, "tz": tz})
                continue
            if int(f["back"]) != t:
                chk.violation({"op": "GT2time", "symptom": "roundtrip", "tz": tz, "era": era},
                              "TZ=%s GT %s parsed back to %s, expected %d" % (tz, text, f["back"], t),
                              {"line": li, "got": lo, "tz": tz})
            elif fd > 0 and fv and t != -1:
                # t == -1 is the API's in-band error value: asn_GT2time_frac returns -1 (== t, which
                # is all the statement asks) but cannot tell it from a failure and leaves the fraction alone
                bv, bd = int(f["fv"]), int(f["fd"])
                if bd < 0 or bv * 10 ** fd != fv * 10 ** bd:
                    chk.violation({"op": "GT2time", "symptom": "fraction", "tz": tz},
                                  "TZ=%s GT %s fraction parsed back as %d/10^%d, expected %d/10^%d" % (
                                      tz, text, bv, bd, fv, fd), {"line": li, "got": lo, "tz": tz})
        else:
            t = info
            exp = canon(t, utc2=True)
            if text != exp:
                chk.violation({"op": "time2UT", "symptom": "text", "tz": tz},
                              "TZ=%s asn_time2UT(t=%d) = %s, canonical is %s" % (tz, t, text, exp),
                              {"line": li, "got": lo, "tz": tz})
            elif int(f["back"]) != t:
                chk.violation({"op": "UT2time", "symptom": "roundtrip", "tz": tz},
                              "TZ=%s UT %s parsed back to %s, expected %d" % (tz, text, f["back"], t),
                              {"line": li, "got": lo, "tz": tz})


def died(chk, what, lines, res, hang, err, extra):
    bad = lines[len(res)] if len(res) < len(lines) else "?"
    kind, frame = drv.classify_report(err)
    key = {"symptom": "hang" if hang else "crash", "report": kind, "frame": frame, "op": bad.split(" ")[0]}
    key.update(extra)
    chk.violation(key, "%s died (%s in %s) on: %s" % (what, kind, frame, bad[:100]),
                  {"line": bad, "stderr": err[-3000:]})


def run(tier, seed):
    chk = core.Check("C17", tier, seed)
    quick = tier == "quick"
    rng = random.Random(seed)
    chk.rule = ("OBJECT_IDENTIFIER/RELATIVE_OID set_arcs/get_arcs/parse_arcs/single_arc and asn_time2GT_frac/asn_GT2time_frac/"
                "asn_time2UT/asn_UT2time executed (ASan+UBSan build) on boundary and random arc vectors, raw octet strings "
                "and time_t values, the time part once per TZ setting in a separate process; oracle = Python integers "
                "and datetime; distinct = distinct (TZ, call) pairs")
    chk.assumptions = ["proleptic Gregorian UTC arithmetic of Python datetime is the meaning of time_t",
                       "UTCTime's two-digit-year window is taken to be the library's own: 1960..2059 (asn_UT2time: YY >= 60 -> 19YY, else 20YY)",
                       "for 2.x arcs with 80+x > 2^32-1 either a clean rejection or exact octets are accepted"]
    tc = build.toolchain()
    exe = build_hdriver(tc)
    lines, meta = oid_lines(rng, quick)
    res, done, hang, rc, err = run_script(exe, lines)
    chk.evaluations += len(res)
    if not done:
        died(chk, "OID helper", lines, res, hang, err, {})
    check_oid(chk, lines, meta, res)
    chk.sample({"in": lines[5], "out": res[5] if len(res) > 5 else None})
    tlines, tmeta = time_lines(rng, quick)
    tzs_used = []
    for tz in TZS:
        if "/" in tz and not os.path.exists("/usr/share/zoneinfo/" + tz):
            continue
        tzs_used.append(tz)
        res, done, hang, rc, err = run_script(exe, tlines, env=build.san_env({"TZ": tz}))
        chk.evaluations += len(res)
        if not done:
            died(chk, "time helper", tlines, res, hang, err, {"tz": tz})
        check_time(chk, tz, tlines, tmeta, res)
        if len(res) > 7:
            chk.sample({"tz": tz, "in": tlines[7], "out": res[7]})
    chk.extra["tz_settings"] = tzs_used
    chk.extra["oid_calls"] = len(lines)
    chk.extra["time_calls_per_tz"] = len(tlines)
    return chk.finish()
