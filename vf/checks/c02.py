"""C02 -- encoders emit the byte-exact standard wire format (DER, UPER, OER)."""
import os, random
from .. import build, core, drv, harness, taboo
from ..asn import gen, model, der, uper, oer, shapes

SYNS = ["DER", "UPER", "OER"]


def real_round(chk, tc, quick):
    """foreign reference bytes: the sample PDUs shipped with the example specifications were produced by other implementations
    (a CA's DER certificate, an LDAP client's message, UMTS RRC messages in unaligned PER): decoding one and encoding it again in
    the same canonical syntax must give the sample back, octet for octet"""
    from .. import realpdu
    nm = realpdu.names(quick)
    blds = realpdu.make_many(tc, nm)
    for spec, pdu, syn, label, data in realpdu.samples(tc, nm):
        b = blds[spec]
        if b.exe is None:
            chk.inconcl("shipped specification %s not built (%s)" % (spec, b.error[0]))
            continue
        esyn = "DER" if syn == "BER" else syn
        r = drv.run_cases(b.exe, [drv.Case(1, ["dec s=0 t=%s syn=%s in=%s" % (pdu, syn, drv.hx(data)), "enc s=0 syn=%s" % esyn,
                                              "free s=0"])], per_case_timeout=120).get(1)
        replay = {"module": b.text, "options": b.options, "pdu": pdu, "sample": "examples/" + label, "sample_hex": data.hex()[:4000]}
        if r is None or r.status == "notrun":
            chk.inconcl("case not run")
            continue
        chk.evaluations += 1
        chk.seen(("real", label, esyn))
        if r.status in ("crash", "hang"):
            kind, frame = drv.classify_report(r.stderr)
            chk.violation({"symptom": r.status, "report": kind, "frame": frame, "syntax": esyn, "kind": "real", "fids": [], "sample": label},
                          "%s while re-encoding the shipped sample %s: %s in %s" % (r.status, label, kind, frame), dict(replay, stderr=r.stderr[-3000:]))
            continue
        d, e = r.events[0], r.events[1]
        if d.get("rc") != "OK":
            chk.inconcl("shipped sample %s not decoded (C03)" % label)
            continue
        c = int(d["consumed"])
        want = data[:c]
        got = drv.unhex(e["out"]) if int(e.get("rc", -1)) >= 0 and e.get("out") not in (None, "trunc", "q") else None
        if got is None:
            chk.violation({"symptom": "encode-failed", "syntax": esyn, "kind": "real", "fids": [], "sample": label},
                          "asn_encode(%s) of the decoded shipped sample %s fails (rc=%s failtype=%s)" % (esyn, label, e.get("rc"), e.get("failtype")), replay)
            continue
        same = got == want
        if not same and esyn == "UPER" and len(got) == len(want) and got[:-1] == want[:-1]:
            # the decoder reports whole octets: a sample that carries further bits after the message in its last octet
            # (the '-nopad' files) agrees when the encoder's last octet is the sample's with trailing bits cleared
            same = any(got[-1] == want[-1] & (0xff << k) & 0xff for k in range(1, 8))
        if same:
            chk.count("real_sample_reencoded_identically")
        else:
            chk.violation({"symptom": "real-sample-reencoding-differs", "syntax": esyn, "kind": "real", "fids": [], "sample": label},
                          "%s of the decoded shipped sample %s differs from the sample: %s.. != %s.." % (esyn, label, got.hex()[:80], want.hex()[:80]),
                          dict(replay, got=got.hex()[:4000]))


def run(tier, seed):
    chk = core.Check("C02", tier, seed)
    quick = tier == "quick"
    rng = random.Random(seed)
    chk.rule = ("generated modules x boundary-biased values (plus the fixed 'shapes' module: lengths at 16K multiples, long OPTIONAL runs, tag "
                "numbers at the one/multi-octet limits); the value enters through the reference DER, asn_encode(ATS_DER / ATS_UNALIGNED_CANONICAL_PER / "
                "ATS_CANONICAL_OER) output is compared byte for byte with the independent reference encoders (vf/asn/der.py, uper.py, oer.py); "
                "and the shipped sample PDUs of the X.509 / LDAP (thorough: UMTS RRC) example specifications, produced by other implementations, must come back octet "
                "for octet from decode + encode; distinct = distinct (module, type, value, syntax)")
    chk.assumptions = ["reference subset: everything generated except time types under UPER, SET under UPER/OER, untagged CHOICE alternatives under OER",
                       "trusts the reference encoders; every disagreement on the unchanged tree was triaged by hand against X.690/X.691/X.696 (DESIGN.md section 6)"]
    tc = build.toolchain()
    tb = taboo.Taboo("C02")
    real_round(chk, tc, quick)
    nmod = int(os.environ.get("VERIF_NMOD", 4 if quick else 40))
    nvals = 6 if quick else 16
    prof = gen.profile(max_len=24, long_values=not quick)
    builds = harness.make_many(tc, [seed * 1000 + 100 + i for i in range(nmod)], prof, atoms=12, composites=10)
    builds.append(harness.make(tc, seed * 1000 + 199, prof, module_fn=lambda g: shapes.build("SH")))
    builds.append(harness.make(tc, seed * 1000 + 198, prof, module_fn=lambda g: shapes.build2("SH2")))
    for b in builds:
        if b.exe is None:
            chk.inconcl("module not built (%s)" % b.error[0])
            continue
        cases, meta = [], {}
        cid = 0
        for tname, t in b.mod.types.items():
            if b.mod.name == "SH":
                b.gen.mod = b.mod
                vals = shapes.values(b.mod, tname, rng, quick)
            elif b.mod.name == "SH2":
                b.gen.mod = b.mod
                vals = shapes.values2(b.mod, tname, rng, quick)
            else:
                vals = b.gen.values(t, nvals)
            for v in vals:
                ref = harness.ref_der(b, t, v)
                if ref is None:
                    continue
                refs = {"DER": ref, "UPER": uper.encode(b.mod, t, v), "OER": oer.encode(b.mod, t, v)}
                cid += 1
                cases.append(drv.Case(cid, ["dec s=0 t=%s syn=BER in=%s" % (tname, drv.hx(ref))] + ["enc s=0 syn=%s" % s for s in SYNS]))
                meta[cid] = (tname, t, v, refs)
        res = drv.run_parallel(b.exe, cases)
        for cid, (tname, t, v, refs) in meta.items():
            r = res.get(cid)
            if r is None or r.status == "notrun":
                chk.inconcl("case not run")
                continue
            rt = b.mod.resolve(t)
            if r.status in ("crash", "hang"):
                kind, frame = drv.classify_report(r.stderr)
                syn = SYNS[len(r.events) - 1] if 1 <= len(r.events) <= 3 else "BER"
                chk.evaluations += 1
                fids = tb.hit(taboo.ids(b.mod, t, v, syn)) if syn in SYNS else []
                from .c04 import static_flags
                chk.violation({"symptom": r.status, "report": kind, "frame": frame, "syntax": syn, "kind": rt.kind, "fids": fids,
                               "has_set": static_flags(b.mod, t)["has_set"]},
                              "%s (%s in %s) while encoding %s of %s" % (r.status, kind, frame, syn, tname),
                              {"module": b.text, "pdu": tname, "value": gen.value_repr(v, 1000), "stderr": r.stderr[-2000:]},
                              disc={"ids": sorted(taboo.ids(b.mod, t, v, syn)) if syn in SYNS else [], "type": model.type_text(t, 0), "syntax": syn})
                continue
            ev = r.events
            if ev[0].get("rc") != "OK" or int(ev[0].get("consumed", -1)) != len(refs["DER"]):
                chk.inconcl("entry decode of reference DER failed (C03)")
                continue
            for s, e in zip(SYNS, ev[1:4]):
                ref = refs[s]
                if ref is None:
                    chk.inconcl("outside the reference subset (%s)" % s)
                    continue
                ids = taboo.ids(b.mod, t, v, s)
                fids = tb.hit(ids)
                if fids and rng.random() > 0.25 and not chk.discover:
                    chk.count("skipped_tabooed")
                    continue
                chk.evaluations += 1
                chk.seen((b.seed, tname, refs["DER"], s))
                got = e.get("out")
                sym = None
                if int(e.get("rc", -1)) < 0:
                    sym = "encode-failed"
                elif got != drv.hx(ref):
                    sym = "bytes-differ"
                if sym:
                    chk.violation({"symptom": sym, "syntax": s, "kind": rt.kind, "fids": fids},
                                  "%s %s: %s %s: asn1c %s, reference %s; value %s" % (
                                      tname, model.type_text(t, 0)[:110].replace("\n", " "), s, sym, (got or "")[:80], ref.hex()[:80],
                                      gen.value_repr(v, 80)),
                                  {"module": b.text, "pdu": tname, "syntax": s, "value": gen.value_repr(v, 2000), "ref_der": refs["DER"].hex(),
                                   "expected": ref.hex(), "observed": got},
                                  disc={"ids": sorted(ids), "type": model.type_text(t, 0), "syntax": s})
                else:
                    chk.count("equal_" + s)
            if len(chk.samples) < 6:
                chk.sample({"pdu": tname, "type": model.type_text(t, 0)[:140], "value": gen.value_repr(v, 80),
                            "reference": {k: (x.hex()[:60] if x is not None else None) for k, x in refs.items()}})
    return chk.finish()
