"""C02 -- encoders emit the byte-exact standard wire format (DER, UPER, OER)."""
import os, random
from .. import build, core, drv, harness, taboo
from ..asn import gen, model, der, uper, oer, shapes

SYNS = ["DER", "UPER", "OER"]


def run(tier, seed):
    chk = core.Check("C02", tier, seed)
    quick = tier == "quick"
    rng = random.Random(seed)
    chk.rule = ("generated modules x boundary-biased values (plus the fixed 'shapes' module: lengths at 16K multiples, long OPTIONAL runs, tag "
                "numbers at the one/multi-octet limits); the value enters through the reference DER, asn_encode(ATS_DER / ATS_UNALIGNED_CANONICAL_PER / "
                "ATS_CANONICAL_OER) output is compared byte for byte with the independent reference encoders (vf/asn/der.py, uper.py, oer.py); "
                "distinct = distinct (module, type, value, syntax)")
    chk.assumptions = ["reference subset: everything generated except time types under UPER, SET under UPER/OER, untagged CHOICE alternatives under OER",
                       "trusts the reference encoders; every disagreement on the unchanged tree was triaged by hand against X.690/X.691/X.696 (DESIGN.md section 6)"]
    tc = build.toolchain()
    tb = taboo.Taboo("C02")
    nmod = int(os.environ.get("VERIF_NMOD", 4 if quick else 40))
    nvals = 6 if quick else 16
    prof = gen.profile(max_len=24, long_values=not quick)
    builds = harness.make_many(tc, [seed * 1000 + 100 + i for i in range(nmod)], prof, atoms=12, composites=10)
    builds.append(harness.make(tc, seed * 1000 + 199, prof, module_fn=lambda g: shapes.build("SH")))
    builds.append(harness.make(tc, seed * 1000 + 198, prof, module_fn=lambda g: shapes.build2("SH2")))
    for b in builds:
        if b.exe is None:
            chk.inconcl("module not built (%s)" % b.error[0])
            continue
        cases, meta = [], {}
        cid = 0
        for tname, t in b.mod.types.items():
            if b.mod.name == "SH":
                b.gen.mod = b.mod
                vals = shapes.values(b.mod, tname, rng, quick)
            elif b.mod.name == "SH2":
                b.gen.mod = b.mod
                vals = shapes.values2(b.mod, tname, rng, quick)
            else:
                vals = b.gen.values(t, nvals)
            for v in vals:
                ref = harness.ref_der(b, t, v)
                if ref is None:
                    continue
                refs = {"DER": ref, "UPER": uper.encode(b.mod, t, v), "OER": oer.encode(b.mod, t, v)}
                cid += 1
                cases.append(drv.Case(cid, ["dec s=0 t=%s syn=BER in=%s" % (tname, drv.hx(ref))] + ["enc s=0 syn=%s" % s for s in SYNS]))
                meta[cid] = (tname, t, v, refs)
        res = drv.run_parallel(b.exe, cases)
        for cid, (tname, t, v, refs) in meta.items():
            r = res.get(cid)
            if r is None or r.status == "notrun":
                chk.inconcl("case not run")
                continue
            rt = b.mod.resolve(t)
            if r.status in ("crash", "hang"):
                kind, frame = drv.classify_report(r.stderr)
                syn = SYNS[len(r.events) - 1] if 1 <= len(r.events) <= 3 else "BER"
                chk.evaluations += 1
                fids = tb.hit(taboo.ids(b.mod, t, v, syn)) if syn in SYNS else []
                from .c04 import static_flags
                chk.violation({"symptom": r.status, "report": kind, "frame": frame, "syntax": syn, "kind": rt.kind, "fids": fids,
                               "has_set": static_flags(b.mod, t)["has_set"]},
                              "%s (%s in %s) while encoding %s of %s" % (r.status, kind, frame, syn, tname),
                              {"module": b.text, "pdu": tname, "value": gen.value_repr(v, 1000), "stderr": r.stderr[-2000:]},
                              disc={"ids": sorted(taboo.ids(b.mod, t, v, syn)) if syn in SYNS else [], "type": model.type_text(t, 0), "syntax": syn})
                continue
            ev = r.events
            if ev[0].get("rc") != "OK" or int(ev[0].get("consumed", -1)) != len(refs["DER"]):
                chk.inconcl("entry decode of reference DER failed (C03)")
                continue
            for s, e in zip(SYNS, ev[1:4]):
                ref = refs[s]
                if ref is None:
                    chk.inconcl("outside the reference subset (%s)" % s)
                    continue
                ids = taboo.ids(b.mod, t, v, s)
                fids = tb.hit(ids)
                if fids and rng.random() > 0.25 and not chk.discover:
                    chk.count("skipped_tabooed")
                    continue
                chk.evaluations += 1
                chk.seen((b.seed, tname, refs["DER"], s))
                got = e.get("out")
                sym = None
                if int(e.get("rc", -1)) < 0:
                    sym = "encode-failed"
                elif got != drv.hx(ref):
                    sym = "bytes-differ"
                if sym:
                    chk.violation({"symptom": sym, "syntax": s, "kind": rt.kind, "fids": fids},
                                  "%s %s: %s %s: asn1c %s, reference %s; value %s" % (
                                      tname, model.type_text(t, 0)[:110].replace("\n", " "), s, sym, (got or "")[:80], ref.hex()[:80],
                                      gen.value_repr(v, 80)),
                                  {"module": b.text, "pdu": tname, "syntax": s, "value": gen.value_repr(v, 2000), "ref_der": refs["DER"].hex(),
                                   "expected": ref.hex(), "observed": got},
                                  disc={"ids": sorted(ids), "type": model.type_text(t, 0), "syntax": s})
                else:
                    chk.count("equal_" + s)
            if len(chk.samples) < 6:
                chk.sample({"pdu": tname, "type": model.type_text(t, 0)[:140], "value": gen.value_repr(v, 80),
                            "reference": {k: (x.hex()[:60] if x is not None else None) for k, x in refs.items()}})
    return chk.finish()
