"""C09 -- the layout chosen by the PER and OER codecs (and the ranges shown by
asn1c -E -F -print-constraints) is the one determined by the effective
constraint of X.680 / X.691 10.3 / X.696 8.2."""
import os, random, re, subprocess
from .. import build, core, drv
from ..asn import model, der, uper, oer
from ..asn import constraints as C
from ..asn.model import MIN, MAX, Type, Constraint

U_INT = [-1, 0, 1, 2, 3, 4]
U_SIZE = [0, 1, 2, 3, 4, 5]
BIG_INT = sorted(set(s * ((1 << k) + d) for k in (7, 8, 15, 16, 31, 32) for d in (-1, 0, 1) for s in (1, -1)) |
                 {(1 << 63) - 1, -(1 << 63), (1 << 63) - 2, -(1 << 63) + 1, 0, 1, -1, 255, 256, 65535, 65536})
BIG_SIZE = [0, 1, 2, 127, 128, 129, 255, 256, 16383, 16384, 16385, 65534, 65535, 65536, 65537]
INT64 = C.IntSet([(-(1 << 63), (1 << 63) - 1)])


def leaves(U):
    out = []
    for i, a in enumerate(U):
        out.append(("val", a))
        for b in U[i + 1:]:
            out.append(("range", a, b))
        out.append(("range", MIN, a))
        out.append(("range", a, MAX))
    out.append(("range", MIN, MAX))
    return out


def small_trees(U):
    L = leaves(U)
    for a in L:
        yield a
    for a in L:
        yield ("allexcept", a)
    for op in ("union", "inter", "except"):
        for a in L:
            for b in L:
                yield (op, a, b)


def random_tree(rng, U, depth):
    if depth <= 0 or rng.random() < 0.35:
        a, b = sorted(rng.sample(U, 2))
        r = rng.random()
        if r < 0.2:
            return ("val", a)
        if r < 0.3:
            return ("range", MIN, b)
        if r < 0.4:
            return ("range", a, MAX)
        return ("range", a, b)
    op = rng.choice(["union", "union", "inter", "except"])
    return (op, random_tree(rng, U, depth - 1), random_tree(rng, U, depth - 1))


def leaf_ok(tree, parent):
    k = tree[0]
    if k == "incl":
        return not tree[2].inter(parent).empty()
    if k == "val":
        return parent.contains(tree[1])
    if k == "range":
        lo = parent.lb() if tree[1] == MIN else tree[1]
        hi = parent.ub() if tree[2] == MAX else tree[2]
        if lo is not None and hi is not None and lo > hi:
            return False
        # X.680: the endpoints must be values of the parent type
        return (tree[1] == MIN or parent.contains(tree[1])) and (tree[2] == MAX or parent.contains(tree[2]))
    if k == "allexcept":
        return leaf_ok(tree[1], parent)
    return leaf_ok(tree[1], parent) and leaf_ok(tree[2], parent)


def legal(tree, parent):
    if not leaf_ok(tree, parent):
        return False
    try:
        s = C.eval_tree(tree, parent)
    except Exception:
        return False
    if s.empty():
        return False
    # every operand must denote a non-empty set too
    def sub(t):
        if t[0] in ("val", "range", "incl"):
            return not C.eval_tree(t, parent).empty()
        if t[0] == "allexcept":
            return sub(t[1])
        return sub(t[1]) and sub(t[2]) and not C.eval_tree(t, parent).empty()
    return sub(tree)


def tree_ops(tree):
    k = tree[0]
    if k == "incl":
        return {"contained"}
    if k in ("val", "range"):
        if k == "range" and (tree[1] == MIN or tree[2] == MAX):
            return {"minmax"}
        return set()
    if k == "allexcept":
        return {"allexcept"} | tree_ops(tree[1])
    return {k} | tree_ops(tree[1]) | tree_ops(tree[2])


class Case:
    """one generated type"""
    def __init__(self, name, kind, t, specs_text, family):
        self.name, self.kind, self.t, self.text, self.family = name, kind, t, specs_text, family


def mk_type(kind, cons):
    if kind == "INTEGER":
        return Type("INTEGER", value_c=cons)
    if kind == "SEQUENCE OF":
        return Type("SEQUENCE OF", elem=Type("BOOLEAN"), size_c=cons)
    return Type(kind, size_c=cons)


def build_cases(tier, seed, rng):
    """-> list of (Case or (base Case, derived Case)) descriptions, deterministic in (tier, seed)"""
    quick = tier == "quick"
    out = []    # (kind, [specs per level]) ; level list of specs: first level on the base type, further levels through references
    allint = C.IntSet.all()
    nonneg = C.IntSet([(0, None)])

    def add_single(kind, U, parent, trees, exts):
        for tr in trees:
            if not legal(tr, parent):
                continue
            for e in exts:
                if e == "add":
                    root = C.eval_tree(tr, parent)
                    hi = root.ub()
                    if hi is None:
                        continue
                    addv = ("val", hi + 3)
                    out.append((kind, [[(tr, True, addv)]], "small-tree"))
                else:
                    out.append((kind, [[(tr, bool(e), None)]], "small-tree"))

    ti = list(small_trees(U_INT))
    ts = list(small_trees(U_SIZE))
    if quick:
        # a seed-dependent slice of the exhaustive space
        ti = [t for i, t in enumerate(ti) if (i * 7 + seed) % 29 == 0]
        ts = [t for i, t in enumerate(ts) if (i * 7 + seed) % 61 == 0]
    add_single("INTEGER", U_INT, allint, ti, [False, True])
    add_single("INTEGER", U_INT, allint, [t for i, t in enumerate(ti) if i % 5 == 0], ["add"])
    add_single("OCTET STRING", U_SIZE, nonneg, ts, [False])
    add_single("OCTET STRING", U_SIZE, nonneg, [t for i, t in enumerate(ts) if i % 3 == 0], [True])
    for j, kind in enumerate(("BIT STRING", "IA5String", "SEQUENCE OF")):
        add_single(kind, U_SIZE, nonneg, [t for i, t in enumerate(ts) if i % 9 == j], [False, True])
    # serial application on one node and through a type reference
    L = leaves(U_INT)
    pairs = [(a, b) for a in L for b in L]
    rng.shuffle(pairs)
    for a, b in pairs[: (60 if quick else 1200)]:
        pa = C.eval_tree(a, allint)
        if not legal(a, allint) or not legal(b, pa):
            continue
        e1, e2 = rng.random() < 0.3, rng.random() < 0.3
        how = rng.choice(["node", "ref", "ref2"])
        if how == "node":
            out.append(("INTEGER", [[(a, e1, None), (b, e2, None)]], "serial"))
        elif how == "ref":
            out.append(("INTEGER", [[(a, e1, None)], [(b, e2, None)]], "ref-chain"))
        else:
            out.append(("INTEGER", [[(a, e1, None)], [], [(b, e2, None)]], "ref-chain"))
    Ls = leaves(U_SIZE)
    pairs = [(a, b) for a in Ls for b in Ls]
    rng.shuffle(pairs)
    for a, b in pairs[: (30 if quick else 500)]:
        pa = C.eval_tree(a, nonneg)
        if not legal(a, nonneg) or not legal(b, pa):
            continue
        e1, e2 = rng.random() < 0.3, rng.random() < 0.3
        kind = rng.choice(["OCTET STRING", "IA5String", "SEQUENCE OF", "BIT STRING"])
        if rng.random() < 0.5 and kind != "SEQUENCE OF":      # 'SEQUENCE (c1) (c2) OF' is not in the grammar
            out.append((kind, [[(a, e1, None), (b, e2, None)]], "serial"))
        else:
            out.append((kind, [[(a, e1, None)], [(b, e2, None)]], "ref-chain"))
    # depth 3: (leaf op leaf) op leaf and leaf op (leaf op leaf) over the small universe, sampled
    for U, kind, parent, cnt in ((U_INT, "INTEGER", allint, 150 if quick else 3000), (U_SIZE, "OCTET STRING", nonneg, 60 if quick else 1200)):
        LL = leaves(U)
        made = 0
        for _ in range(cnt * 4):
            if made >= cnt:
                break
            a, b, c = rng.choice(LL), rng.choice(LL), rng.choice(LL)
            o1, o2 = rng.choice(["union", "inter", "except"]), rng.choice(["union", "inter", "except"])
            tr = (o2, (o1, a, b), c) if rng.random() < 0.5 else (o2, c, (o1, a, b))
            if legal(tr, parent):
                out.append((kind, [[(tr, rng.random() < 0.25, None)]], "depth-3"))
                made += 1
    # contained subtypes: (Base), (INCLUDES Base), combined with ranges; the base may be extensible (not inherited)
    for i in range(40 if quick else 600):
        a = rng.choice(L)
        if not legal(a, allint):
            continue
        aset = C.eval_tree(a, allint)
        bext = rng.random() < 0.5
        form = rng.choice(["plain", "includes", "union", "inter"])
        leaf = ("incl", "@base", aset, form == "includes")
        if form in ("plain", "includes"):
            tr = leaf
        else:
            b = rng.choice(L)
            tr = ("union" if form == "union" else "inter", leaf, b) if rng.random() < 0.5 else ("union" if form == "union" else "inter", b, leaf)
        if not legal(tr, allint):
            continue
        out.append(("INTEGER", [("base", [(a, bext, None)]), [(tr, rng.random() < 0.2, None)]], "contained-subtype"))
    # width boundaries of the OER fixed-size and PER bit-field layouts, written as a range, as an intersection and through MIN/MAX
    for k in (7, 8, 15, 16, 31, 32, 63):
        for lo, hi in ((-(1 << k), (1 << k) - 1), (-(1 << k) + 1, (1 << k) - 1), (-(1 << k), (1 << k) - 2), (0, (1 << k) - 1), (0, 1 << k), (1, 1 << k)):
            if hi > (1 << 63) - 1:
                continue
            form = (k + (lo < 0) + (hi & 1)) % 3
            if form == 0:
                tr = ("range", lo, hi)
            elif form == 1:
                tr = ("inter", ("range", lo, MAX), ("range", MIN, hi))
            else:
                tr = ("union", ("range", lo, min(lo + 1, hi)), ("range", lo, hi))
            if legal(tr, allint):
                out.append(("INTEGER", [[(tr, False, None)]], "width-boundary"))
    # a parent that is already a union of disjoint pieces, narrowed by a range that cuts into two of them -- on the same
    # node, through a reference, or as an intersection; in the small universe and with pieces of different widths
    plans = []
    for (a1, b1, a2, b2) in [(-1, 0, 2, 4), (-1, 1, 3, 4), (0, 1, 3, 4), (-1, -1, 1, 4), (0, 10, 20, 300), (-300, -20, 5, 70000), (1, 100, 200, 255)]:
        span = range(a1, b2 + 1) if b2 - a1 < 12 else [a1, a1 + 1, b1 - 1, b1, a2, a2 + 1, b2 - 1, b2, (a1 + b1) // 2, (a2 + b2) // 2]
        for lo in span:
            for hi in span:
                if a1 < lo <= b1 and a2 <= hi < b2 or a1 <= lo <= b1 and a2 <= hi < b2 and lo > a1 or (a1 < lo <= b1 and a2 <= hi <= b2):
                    plans.append(((a1, b1, a2, b2), lo, hi))
    rng.shuffle(plans)
    for (a1, b1, a2, b2), lo, hi in plans[: (45 if quick else 100000)]:
        par = ("union", ("range", a1, b1), ("range", a2, b2))
        cut = ("range", lo, hi)
        how = rng.choice(["node", "ref", "ref2", "inter", "inter-rev"])
        if not legal(par, allint) or not legal(cut, C.eval_tree(par, allint)):
            continue
        if how == "node":
            out.append(("INTEGER", [[(par, False, None), (cut, False, None)]], "split-parent"))
        elif how == "ref":
            out.append(("INTEGER", [[(par, False, None)], [(cut, rng.random() < 0.2, None)]], "split-parent"))
        elif how == "ref2":
            out.append(("INTEGER", [[(par, False, None)], [], [(cut, False, None)]], "split-parent"))
        else:
            tr = ("inter", par, cut) if how == "inter" else ("inter", cut, par)
            if legal(tr, allint):
                out.append(("INTEGER", [[(tr, False, None)]], "split-parent"))
    for (a1, b1, a2, b2), lo, hi in [p_ for p_ in plans if p_[0][0] >= 0 and p_[0][3] <= 300][: (12 if quick else 400)]:
        par = ("union", ("range", a1, b1), ("range", a2, b2))
        cut = ("range", lo, hi)
        if legal(par, nonneg) and legal(cut, C.eval_tree(par, nonneg)):
            out.append((rng.choice(["OCTET STRING", "IA5String", "SEQUENCE OF"]), [[(par, False, None)], [(cut, False, None)]], "split-parent"))
    # sizes whose bounds sit on the 64K edge of the constrained length form (X.691 11.9.3.3)
    for lo, hi in ((0, 65535), (1, 65535), (0, 65536), (1, 65536), (2, 65536), (65535, 65536), (65536, 65536), (65535, 65537), (1, 65537), (65537, 65537)):
        for kind in (("OCTET STRING", "SEQUENCE OF") if quick else ("OCTET STRING", "IA5String", "SEQUENCE OF", "BIT STRING")):
            tr = ("range", lo, hi) if lo != hi else ("val", lo)
            if legal(tr, nonneg):
                out.append((kind, [[(tr, False, None)]], "size-64k-edge"))
    # random trees over 64-bit / 64K boundary values
    for i in range(80 if quick else 1500):
        tr = random_tree(rng, BIG_INT, rng.choice([1, 2, 2, 3]))
        if legal(tr, INT64) and C.eval_tree(tr, allint).inter(INT64) == C.eval_tree(tr, allint) or \
                (legal(tr, allint) and tree_ops(tr) & {"minmax"}):
            if legal(tr, allint):
                out.append(("INTEGER", [[(tr, rng.random() < 0.3, None)]], "random-64bit"))
    for i in range(30 if quick else 400):
        tr = random_tree(rng, BIG_SIZE, rng.choice([1, 2, 2]))
        if legal(tr, nonneg):
            kind = rng.choice(["OCTET STRING", "OCTET STRING", "IA5String", "SEQUENCE OF", "BIT STRING"])
            out.append((kind, [[(tr, rng.random() < 0.3, None)]], "random-64k"))
    return out


def layout_int(mod, t):
    specs = C.chain(mod, t, "value_c")
    lb, ub, ext, root = C.per_visible(specs) if specs else (None, None, False, C.IntSet.all())
    if lb is not None and ub is not None:
        lay = "constrained" if lb != ub else "single"
    elif lb is not None:
        lay = "semi0" if lb == 0 else "semi"
    elif ub is not None:
        lay = "upper"
    else:
        lay = "unconstrained"
    return lay + ("-ext" if ext else ""), lb, ub, ext, root


def layout_size(mod, t):
    specs = C.chain(mod, t, "size_c")
    lb, ub, ext, root = C.per_visible(specs, C.IntSet([(0, None)])) if specs else (0, None, False, C.IntSet([(0, None)]))
    lb = lb or 0
    if ub is None or ub >= 65536:
        lay = "semi" if lb else "none"
        if ub is not None:
            lay += "-ub64k"
    elif lb == ub:
        lay = "fixed"
    else:
        lay = "range"
    return lay + ("-ext" if ext else ""), lb, ub, ext, root


def real_set(mod, t, which, base):
    """(actual value set, parent set of the last constraint)"""
    specs = C.chain(mod, t, which)
    cur = base
    parent = base
    for tree, e, add in specs:
        parent = cur
        cur = cur.inter(C.eval_tree(tree, cur))
    return cur, parent


def int_values(mod, t, rng, adds):
    lay, lb, ub, ext, root = layout_int(mod, t)
    actual, parent = real_set(mod, t, "value_c", C.IntSet.all())
    cand = set([0, -1, 1, 5, 100, -100, 127, 128, 255, 256, -128, -129, 32767, 32768, 65535, 65536, (1 << 31) - 1, 1 << 31, -(1 << 31),
                (1 << 32) - 1, 1 << 32, (1 << 63) - 1, -(1 << 63)]) | set(adds)
    for a, b in actual.iv:
        for x in (a, b):
            if x is not None:
                cand |= {x - 1, x, x + 1}
    if lb is not None and ub is not None:
        cand.add((lb + ub) // 2)
    out = []
    for v in sorted(cand):
        if not (-(1 << 63) <= v < (1 << 63)):
            continue
        if actual.contains(v):
            out.append((v, "in"))
        elif ext and parent.contains(v) and not ((lb is None or lb <= v) and (ub is None or v <= ub)):
            # outside the range of the extension root: sent with the extension bit (holes are not judged)
            out.append((v, "out"))
    if len(out) > 14:
        keep = [x for x in out if any(x[0] in (a, b) for a, b in actual.iv)]
        rest = [x for x in out if x not in keep]
        rng.shuffle(rest)
        out = keep[:10] + rest[:4]
    return out


def size_values(mod, t, kind, rng):
    lay, lb, ub, ext, root = layout_size(mod, t)
    actual, parent = real_set(mod, t, "size_c", C.IntSet([(0, None)]))
    cand = {0, 1, 2, 3, 7, 8, 9}
    for a, b in actual.iv:
        for x in (a, b):
            if x is not None:
                cand |= {x - 1, x, x + 1}
    out = []
    for n in sorted(cand):
        if n < 0 or n > 70000:
            continue
        if actual.contains(n):
            out.append((n, "in"))
        elif ext and parent.contains(n) and not (lb <= n and (ub is None or n <= ub)):
            out.append((n, "out"))
    big = [x for x in out if x[0] > 2000]
    small = [x for x in out if x[0] <= 2000]
    rng.shuffle(big)
    out = small[:10] + big[:2]
    vals = []
    for n, cls in out:
        if kind == "OCTET STRING":
            v = bytes((i * 7 + 1) & 0xff for i in range(n))
        elif kind == "BIT STRING":
            nb = (n + 7) // 8
            data = bytearray(0xa5 for i in range(nb))
            if n % 8 and nb:
                data[-1] &= (0xff << (8 - n % 8)) & 0xff
            if n:
                data[(n - 1) // 8] |= 0x80 >> ((n - 1) % 8)      # last bit 1 (trailing zero bits: KF of C02)
            v = (bytes(data), n)
        elif kind == "IA5String":
            v = "".join(chr(0x41 + i % 26) for i in range(n))
        else:
            v = [bool(i % 3) for i in range(n)]
        vals.append((v, cls, n))
    return vals


SETRE = re.compile(r"^\((.*)\)$")


class Printed(tuple):
    """(lb, ub, ext, empty) as printed by asn1c, plus the printed set of intervals"""
    def __new__(cls, t, iset):
        o = tuple.__new__(cls, t)
        o.iset = iset
        return o


def parse_printed(s):
    """'(1..5 | 8..10 | 20,...)' -> (lb, ub, ext, empty) with None for MIN/MAX"""
    s = s.strip()
    empty = False
    if s.endswith(":Empty!"):
        empty = True
        s = s[: -len(":Empty!")].strip()
    if not (s.startswith("(") and s.endswith(")")):
        return None
    s = s[1:-1].strip()
    ext = False
    if ",..." in s:
        ext = True
        s = s.replace(",...", "")
    parts = [p.strip() for p in s.split("|")]
    lo, hi = [], []
    for p in parts:
        if ".." in p:
            a, b = p.split("..", 1)
        else:
            a = b = p
        a, b = a.strip(), b.strip()
        try:
            lo.append(None if a == "MIN" else int(a))
            hi.append(None if b == "MAX" else int(b))
        except ValueError:
            return None
    lb = None if None in lo else min(lo)
    ub = None if None in hi else max(hi)
    return Printed((lb, ub, ext, empty), C.IntSet(list(zip(lo, hi))))


def printed_constraints(text, names_kinds):
    """per type name: {'PER': str, 'OER': str} taken from the asn1c -E -F -print-constraints listing"""
    res = {}
    cur = None
    for line in text.splitlines():
        m = re.match(r"^([A-Z][A-Za-z0-9-]*) ::= ", line)
        if m:
            cur = m.group(1)
            res[cur] = {}
            continue
        m = re.match(r"^-- (OER|PER)-visible constraints \([^)]*\)+: (.*)$", line)
        if m and cur:
            # for SEQUENCE OF the element's block comes first, the list's own block last: keep the last
            res[cur][m.group(1)] = m.group(2)
    return res


def pick(printed, size):
    """the INTEGER value part or the SIZE part of a printed constraint line"""
    if printed is None:
        return None
    if size:
        m = re.search(r"\(SIZE\((.*?)\)\)", printed)
        if not m:
            return "none"
        return parse_printed("(" + m.group(1) + ")")
    m = re.match(r"\s*(\([^()]*\)(:Empty!)?)", printed)
    if not m:
        return None
    return parse_printed(m.group(1))


def run(tier, seed):
    chk = core.Check("C09", tier, seed)
    quick = tier == "quick"
    rng = random.Random(seed)
    chk.rule = ("constraint expression trees on INTEGER (value) and on OCTET STRING / BIT STRING / IA5String / SEQUENCE OF (SIZE): every tree of depth <= 2 "
                "(leaf | leaf op leaf | ALL EXCEPT leaf; leaves: v, a..b, MIN..b, a..MAX, MIN..MAX; ops: union, intersection, EXCEPT) over the universe "
                "{-1..4} resp. {0..5}, each with and without an extension marker (thorough: all of them, quick: a seed-dependent slice), serial application "
                "and type-reference chains of leaf pairs, random trees over 64-bit / 16K / 64K boundary values; for every legal type: values at and "
                "around every bound of the set (and outside the root when extensible) enter by BER and are encoded in UPER and OER; judged: bytes equal "
                "to the reference encoders driven by the X.691 10.3 / X.696 8.2 reduction, own output decodes back to the value, the PER-/OER-visible "
                "ranges printed by asn1c -E -F -print-constraints have the reference bounds and extensibility, and types with the same reference "
                "effective constraint produce identical bytes; distinct = distinct (constraint text, value)")
    chk.assumptions = ["expressions that X.680 makes illegal (empty sets, endpoints outside the parent) are not generated; types asn1c rejects are skipped",
                       "values inside holes of an extensible root are not judged (X.691 12.1 'range of the extension root' is read as lb..ub)",
                       "permitted-alphabet algebra and nested extension markers are outside this property"]
    tc = build.toolchain()
    specs = build_cases(tier, seed, rng)
    per_mod = 350
    root = build.scratch_dir("c09")
    groups = {}     # (kind, reference layout key, value) -> {bytes: [type text]}
    nmod = (len(specs) + per_mod - 1) // per_mod
    for mi in range(nmod):
        chunk = specs[mi * per_mod:(mi + 1) * per_mod]
        mod = model.Module("M%d" % mi, "AUTOMATIC")
        cases = []
        for i, (kind, levels, family) in enumerate(chunk):
            name = None
            prev = None
            basename = None
            for li, lv in enumerate(levels):
                name = "T%dx%d" % (i, li)
                if isinstance(lv, tuple) and lv[0] == "base":
                    # the type named by the contained-subtype leaves of the next level (not a parent in the reference chain)
                    basename = name
                    mod.add(name, mk_type(kind, Constraint(lv[1])))
                    continue
                if basename:
                    lv = [(subst_incl(sp[0], basename), sp[1], sp[2]) for sp in lv]
                cons = Constraint(lv) if lv else None
                if prev is None:
                    t = mk_type(kind, cons)
                else:
                    t = Type("REF", ref=prev)
                    if cons is not None:
                        if kind == "INTEGER":
                            t.value_c = cons
                        else:
                            t.size_c = cons
                mod.add(name, t)
                prev = name
            adds = [s[2][1] for lv in levels if not (isinstance(lv, tuple) and lv[0] == "base") for s in lv if s[2] is not None]
            cases.append((name, kind, mod.types[name], family, adds))
        text = mod.text()
        d = os.path.join(root, "m%d" % mi)
        os.makedirs(d, exist_ok=True)
        path = os.path.join(d, "M%d.asn1" % mi)
        open(path, "w").write(text)
        # 1. the compiler's own statement
        p = subprocess.run([tc.tool("asn1c", "asan"), "-E", "-F", "-print-constraints", path], stdout=subprocess.PIPE, stderr=subprocess.PIPE,
                           env=build.tool_env(), timeout=600)
        listing = p.stdout.decode("latin-1")
        errtxt = "\n".join(l for l in p.stderr.decode("latin-1").splitlines() if "runtime error:" not in l)
        if p.returncode != 0 or "END" not in listing:
            # drop the types the compiler complains about and try once more
            bad = set(re.findall(r'for "([A-Za-z0-9-]+)"', errtxt))
            if not bad:
                chk.inconcl("asn1c rejects the module: %s" % errtxt.strip().splitlines()[-1][:80] if errtxt.strip() else "asn1c failed")
                continue
            keep = []
            for c in cases:
                base = c[0].split("x")[0]
                if any(b.split("x")[0] == base for b in bad):
                    chk.count("rejected_by_asn1c")
                    continue
                keep.append(c)
            cases = keep
            mod2 = model.Module("M%d" % mi, "AUTOMATIC")
            keepbase = set(c[0].split("x")[0] for c in cases)
            for n, t in mod.types.items():
                if n.split("x")[0] in keepbase:
                    mod2.add(n, t)
            mod = mod2
            text = mod.text()
            open(path, "w").write(text)
            p = subprocess.run([tc.tool("asn1c", "asan"), "-E", "-F", "-print-constraints", path], stdout=subprocess.PIPE, stderr=subprocess.PIPE,
                               env=build.tool_env(), timeout=600)
            listing = p.stdout.decode("latin-1")
            if p.returncode != 0 or "END" not in listing:
                chk.inconcl("asn1c rejects the module after dropping the reported types")
                continue
        printed = printed_constraints(listing, None)
        # 2. build and run
        try:
            exe, pr = build.compile_module(tc, [path], os.path.join(d, "out"))
        except build.BuildError as e:
            chk.inconcl("generated code does not build")
            continue
        if exe is None:
            chk.inconcl("asn1c failed to generate code")
            continue
        enc = der.Encoder(mod)
        jobs, meta = [], {}
        cid = 0
        for name, kind, t, family, adds in cases:
            if kind == "INTEGER":
                vals = [(v, cls, v) for v, cls in int_values(mod, t, rng, adds)]
            else:
                vals = size_values(mod, t, kind, rng)
            if not vals:
                chk.count("no_admissible_value")
                continue
            ops, plan = [], []
            for v, cls, tag in vals:
                try:
                    ref = enc.encode(t, v)
                except (der.Unsupported, OverflowError):
                    continue
                ops += ["dec s=0 t=%s syn=BER in=%s" % (name, drv.hx(ref)),
                        "enc s=0 syn=UPER reg=1", "dec s=1 t=%s syn=UPER inreg=1" % name, "enc s=1 syn=DER", "free s=1",
                        "enc s=0 syn=OER reg=2", "dec s=1 t=%s syn=OER inreg=2" % name, "enc s=1 syn=DER", "free s=1", "free s=0"]
                plan.append((v, cls, tag, ref))
            cid += 1
            jobs.append(drv.Case(cid, ops))
            meta[cid] = (name, kind, t, family, plan)
        res = drv.run_parallel(exe, jobs)
        for cid, (name, kind, t, family, plan) in meta.items():
            r = res.get(cid)
            ttext = model.type_text(t, 0)
            full = type_chain_text(mod, name)
            if kind == "INTEGER":
                lay, lb, ub, ext, rootset = layout_int(mod, t)
                ospecs = C.chain(mod, t, "value_c")
                olb, oub, _ = C.oer_visible(ospecs) if ospecs else (None, None, None)
            else:
                lay, lb, ub, ext, rootset = layout_size(mod, t)
                ospecs = C.chain(mod, t, "size_c")
                olb, oub, _ = C.oer_visible(ospecs, C.IntSet([(0, None)])) if ospecs else (0, None, None)
            ops_used = "+".join(sorted(set().union(*[tree_ops(s[0]) for s in all_specs(mod, name)]) or {"leaf"}))
            base_key = {"kind": kind, "layout": lay, "family": family, "ops": ops_used,
                        "additions": any(sp[2] is not None for sp in all_specs(mod, name))}
            replay = {"module_excerpt": full, "type": name, "reference": {"per": [lb, ub, ext], "oer": [olb, oub]}}
            # --- the printed constraints
            pc = printed.get(name, {})
            for syn in ("PER", "OER"):
                got = pick(pc.get(syn), kind != "INTEGER")
                chk.evaluations += 1
                if got is None:
                    chk.inconcl("print-constraints line not understood")
                    continue
                if syn == "PER":
                    want = (lb, ub, ext)
                    if kind != "INTEGER":
                        want = ((lb or None) if False else lb, ub, ext)
                else:
                    want = (olb, oub, False)
                if got == "none":
                    g = (0 if kind != "INTEGER" else None, None, False, False)
                else:
                    g = got
                glb, gub, gext, gempty = g
                if kind != "INTEGER":
                    glb = glb or 0
                    wlb = want[0] or 0
                else:
                    wlb = want[0]
                if gempty:
                    chk.violation(dict(base_key, symptom="printed-empty", syntax=syn), "%s: asn1c prints an empty %s-visible constraint for a non-empty set: %s" % (
                        full, syn, pc.get(syn)), replay)
                    continue
                if syn == "OER" and kind != "INTEGER":
                    # X.696 uses a SIZE constraint only when it fixes the size
                    wfix = (want[0] or 0) == want[1]
                    gfix = glb == gub and gub is not None
                    if wfix != gfix or (wfix and (want[1] != gub)):
                        chk.violation(dict(base_key, symptom="printed-oer-size", syntax=syn),
                                      "%s: OER-visible SIZE printed as %s, reference %s" % (full, pc.get(syn), (want[0], want[1])), replay)
                    continue
                if (glb, gub) != (wlb, want[1]) or (syn == "PER" and gext != want[2]):
                    what = []
                    if glb != wlb:
                        what.append("lb")
                    if gub != want[1]:
                        what.append("ub")
                    if syn == "PER" and gext != want[2]:
                        what.append("ext")
                    chk.violation(dict(base_key, symptom="printed-" + "+".join(what), syntax=syn),
                                  "%s: %s-visible constraint printed as %s, reference effective constraint lb=%s ub=%s%s" % (
                                      full, syn, pc.get(syn).strip(), wlb, want[1], " extensible" if (syn == "PER" and want[2]) else ""), replay)
                elif syn == "PER" and kind == "INTEGER" and hasattr(g, "iset") and not base_key["additions"] and g.iset != rootset:
                    chk.violation(dict(base_key, symptom="printed-holes", syntax=syn),
                                  "%s: PER-visible constraint printed as %s, the effective constraint is the set %s" % (
                                      full, pc.get(syn).strip(), rootset.iv[:6]), replay)
                else:
                    chk.count("printed_ok_" + syn)
            # --- encodings
            if r is None or r.status == "notrun":
                chk.inconcl("case not run")
                continue
            ev = r.events
            for i, (v, cls, tag, ref) in enumerate(plan):
                e = ev[10 * i: 10 * i + 10]
                if len(e) < 10:
                    break
                if e[0].get("rc") != "OK":
                    chk.inconcl("value not brought in by BER")
                    continue
                for syn, refenc, eo, do, ro in (("UPER", uper.encode(mod, t, v), e[1], e[2], e[3]), ("OER", oer.encode(mod, t, v), e[5], e[6], e[7])):
                    chk.evaluations += 1
                    chk.seen((full, syn, tag))
                    vkey = dict(base_key, syntax=syn, value=cls)
                    if kind == "INTEGER":
                        vkey["vclass"] = "neg" if v < 0 else ("w64" if v >= (1 << 31) else "")
                        # asn1c keeps such types in an unsigned long
                        vkey["unsigned_native"] = bool(lb is not None and lb >= 0 and (ub is None or ub > 2147483647))
                    vrep = dict(replay, value=str(tag), der=ref.hex(), syntax=syn)
                    if refenc is None:
                        chk.inconcl("outside the reference subset")
                        continue
                    got = eo.get("out")
                    if eo.get("rc") == "0" and got == "-":
                        got = ""        # zero octets produced
                    if eo.get("rc") in ("-1", None) or got in (None, "-"):
                        chk.violation(dict(vkey, symptom="encode-failed"), "%s: %s encoding of %s fails (errno %s); reference %s" % (
                            full, syn, short(tag), eo.get("errno"), refenc.hex()[:40]), vrep)
                        continue
                    if got != refenc.hex():
                        chk.violation(dict(vkey, symptom="bytes-differ"), "%s: %s encoding of %s is %s, the effective constraint (lb=%s ub=%s%s) gives %s" % (
                            full, syn, short(tag), got[:40], lb if syn == "UPER" else olb, ub if syn == "UPER" else oub,
                            " ext" if (syn == "UPER" and ext) else "", refenc.hex()[:40]), dict(vrep, expected=refenc.hex()[:400], observed=got[:400]))
                    else:
                        chk.count("bytes_ok_" + syn)
                        g = groups.setdefault((kind, syn, lay if syn == "UPER" else "-", lb if syn == "UPER" else olb, ub if syn == "UPER" else oub,
                                               ext if syn == "UPER" else False, tag if kind == "INTEGER" else tag), {})
                        g.setdefault(got, []).append(full)
                    if do.get("rc") != "OK" or ro.get("out") != ref.hex():
                        chk.violation(dict(vkey, symptom="own-output-not-decoded"), "%s: %s decoder on the encoder's own output for %s: %s, value %s" % (
                            full, syn, short(tag), do.get("rc"), "differs" if do.get("rc") == "OK" else "-"), vrep)
            if r.status in ("crash", "hang"):
                kind2, frame = drv.classify_report(r.stderr)
                chk.violation(dict(base_key, symptom=r.status, report=kind2, frame=frame), "%s: %s (%s in %s)" % (full, r.status, kind2, frame),
                              dict(replay, stderr=r.stderr[-2000:]))
            if len(chk.samples) < 8 and plan and family != "small-tree" or len(chk.samples) < 3:
                chk.sample({"type": full, "reference_per": [lb, ub, ext], "reference_oer": [olb, oub], "printed": pc,
                            "values": [short(p[2]) for p in plan[:6]]})
        import shutil
        shutil.rmtree(os.path.join(d, "out"), ignore_errors=True)
    # --- equivalence classes: same reference effective constraint => same bytes
    ngroups = 0
    for key, by in groups.items():
        ngroups += 1
        if len(by) > 1:
            items = sorted(by.items(), key=lambda kv: -len(kv[1]))
            chk.violation({"symptom": "equivalent-constraints-encode-differently", "kind": key[0], "syntax": key[1]},
                          "types with the same effective constraint encode %s differently: %s -> %s ; %s -> %s" % (
                              short(key[6]), items[0][1][0], items[0][0][:30], items[1][1][0], items[1][0][:30]), {"key": [str(k) for k in key]})
    chk.count("equivalence_groups", ngroups)
    return chk.finish(exhaustive=False)


def subst_incl(tree, name):
    k = tree[0]
    if k == "incl":
        return ("incl", name, tree[2], tree[3])
    if k in ("val", "range"):
        return tree
    return (k,) + tuple(subst_incl(x, name) for x in tree[1:])


def short(x):
    s = str(x)
    return s if len(s) < 40 else s[:36] + "..."


def all_specs(mod, name):
    out = []
    t = mod.types[name]
    while True:
        for w in ("value_c", "size_c"):
            c = getattr(t, w)
            if c is not None:
                out.extend(c.specs)
        if t.kind != "REF":
            break
        t = mod.types[t.ref]
    return out


def type_chain_text(mod, name):
    parts = []
    t = mod.types[name]
    n = name
    while True:
        parts.append("%s ::= %s" % (n, model.type_text(t, 0)))
        if t.kind != "REF":
            break
        n = t.ref
        t = mod.types[n]
    return "; ".join(reversed(parts))
