"""C20 -- unber and enber are mutually inverse; unber's printed structure agrees
with an independent TLV parse; unber is safe on arbitrary input."""
import glob, os, random, re, subprocess
from concurrent.futures import ThreadPoolExecutor
from .. import build, core, drv
from ..asn import der, gen

CLSNAME = {"U": "UNIVERSAL ", "A": "APPLICATION ", "C": "", "P": "PRIVATE "}
TAG_NUMS = [0, 1, 2, 4, 16, 17, 29, 30, 31, 32, 127, 128, 129, 255, 256, 16383, 16384, (1 << 21) - 1, 1 << 21,
            (1 << 28) - 1, 1 << 28, (1 << 30) - 1]
BIG_TAGS = [1 << 30, (1 << 31) - 1, 1 << 31, (1 << 32) - 1, 1 << 35]


def rand_tree(rng, depth, opts):
    """random TLV tree -> bytes (BER, valid)"""
    cls = rng.choice("UUACCP")
    num = rng.choice(TAG_NUMS) if rng.random() < 0.5 else rng.randrange(0, 31)
    if opts.get("bigtag") and rng.random() < 0.5:
        num = rng.choice(BIG_TAGS)
    if cls == "U" and num == 0:
        num = 4
    constructed = depth > 0 and rng.random() < 0.55
    if not constructed:
        n = rng.choice([0, 0, 1, 2, 3, 5, 127, 128, 129, 255, 256, 300]) if rng.random() < 0.7 else rng.randrange(0, 2000)
        if cls == "U" and num in (1, 2, 10) and n == 0:
            n = 1
        content = bytes(rng.getrandbits(8) for _ in range(n))
        lz = rng.choice([0, 0, 0, 1, 2]) if opts.get("nonminimal") else 0
        force_long = opts.get("nonminimal") and rng.random() < 0.1
        return der.enc_tag(cls, num, False) + der.enc_len(len(content), lz, force_long) + content
    kids = b"".join(rand_tree(rng, depth - 1, opts) for _ in range(rng.choice([0, 1, 1, 2, 3, 5])))
    hdr = der.enc_tag(cls, num, True)
    if rng.random() < 0.4:
        return hdr + b"\x80" + kids + b"\0\0"
    lz = rng.choice([0, 0, 0, 1, 3]) if opts.get("nonminimal") else 0
    return hdr + der.enc_len(len(kids), lz) + kids


def flatten(node, out, base):
    out.append((node["off"] + base, node["cls"], node["num"], node["constructed"], node["hdrlen"], node["length"],
                node["total"]))
    for ch in node.get("children") or []:
        flatten(ch, out, base)


OPEN_RE = re.compile(r'^\s*<([PCI]) O="(\d+)" T="\[([A-Z]* ?)(\d+)\]" TL="(\d+)" V="(Indefinite|\d+)"')
CLOSE_RE = re.compile(r'^\s*</([CI]) O="(\d+)" T="\[([A-Z]* ?)(\d+)\]"(?: TL="(\d+)")?(?: A="[^"]*")? L="(\d+)">')


def parse_unber(text):
    """-> list of opening records (form, off, clsname, num, tl, v) and closing records"""
    opens, closes = [], []
    for line in text.split("\n"):
        m = OPEN_RE.match(line)
        if m:
            opens.append((m.group(1), int(m.group(2)), m.group(3), int(m.group(4)), int(m.group(5)),
                          -1 if m.group(6) == "Indefinite" else int(m.group(6))))
            continue
        m = CLOSE_RE.match(line)
        if m:
            closes.append((m.group(1), int(m.group(2)), int(m.group(6))))
    return opens, closes


def run_tool(cmd, data, timeout=60):
    try:
        p = subprocess.run(cmd, input=data, stdout=subprocess.PIPE, stderr=subprocess.PIPE,
                           env=build.tool_env(), timeout=timeout)
        return p.returncode, p.stdout, p.stderr.decode("latin-1"), False
    except subprocess.TimeoutExpired as e:
        return -9, e.stdout or b"", (e.stderr or b"").decode("latin-1"), True


def san_report(err):
    return "ERROR: AddressSanitizer" in err or "AddressSanitizer:DEADLYSIGNAL" in err


def run(tier, seed):
    chk = core.Check("C20", tier, seed)
    quick = tier == "quick"
    rng = random.Random(seed)
    chk.rule = ("unber -p | enber round trip and line-by-line comparison of unber's O/T/TL/V/L attributes with an independent "
                "TLV parser (vf/asn/der.py:parse_tlv) on random TLV forests and reference DER of generated types; "
                "mutated/random/nesting-bomb inputs for the safety clause; tools built with ASan(+UBSan recovering); "
                "distinct = distinct input byte strings")
    chk.assumptions = ["a well-formed BER string here uses minimal-length tag octets; non-minimal *length* octets are well-formed BER (X.690 8.1.3.5)"]
    tc = build.toolchain()
    unber = tc.tool("unber", "asan")
    enber = tc.tool("enber", "asan")
    work = build.scratch_dir("c20")

    # ---------------------------------------------------------------- corpus of well-formed BER
    corpus = []     # (kind, bytes)
    n_forest = 150 if quick else 3000
    for i in range(n_forest):
        opts = {"nonminimal": i % 5 == 4, "bigtag": i % 25 == 7}
        x = b"".join(rand_tree(rng, rng.choice([0, 1, 2, 3, 5]), opts) for _ in range(rng.choice([1, 1, 2, 6])))
        corpus.append(("forest-bigtag" if opts["bigtag"] else
                       "forest-nonminimal-length" if opts["nonminimal"] else "forest", x))
    # reference DER of generated module values (pure model, no asn1c involved)
    g = gen.Gen(seed, gen.profile(max_len=30))
    for mi in range(3 if quick else 40):
        mod = g.module("M%d" % mi, atoms=10, composites=10)
        enc = der.Encoder(mod)
        for name, t in mod.types.items():
            for v in g.values(t, 2 if quick else 4):
                try:
                    corpus.append(("der", enc.encode(t, v)))
                except der.Unsupported:
                    pass
    # values the default mode prints: object identifiers made of one-octet sub-identifiers (as many arcs as octets, plus
    # one), long ones, relative OIDs, time strings, small and large integers, REAL, BOOLEAN, strings
    for body in (b"\x2a", b"\x2a\x03\x04", b"\x2b\x06\x01\x04\x01\x02", b"\x2b" + b"\x01" * 30, b"\x2a\x86\x48\x86\xf7\x0d\x01\x01\x0b", b"\x7f" * 16):
        corpus.append(("oid-values", b"\x06" + bytes([len(body)]) + body))
        corpus.append(("oid-values", b"\x30" + bytes([len(body) + 4]) + b"\x06" + bytes([len(body)]) + body + b"\x05\x00"))
        corpus.append(("oid-values", b"\x0d" + bytes([len(body)]) + body))
    for tl in (b"\x02\x01\x7f", b"\x02\x09\x00" + b"\xff" * 8, b"\x02\x14" + b"\x7f" * 20, b"\x01\x01\xff", b"\x09\x03\x80\x00\x01", b"\x09\x01\x40",
               b"\x18\x0f20370802121739Z", b"\x17\x0d490915144649Z", b"\x0c\x04h\xc3\xa9!", b"\x16\x00", b"\x03\x02\x07\x80", b"\x0a\x01\x05"):
        corpus.append(("printed-values", tl))
        corpus.append(("printed-values", b"\xa3" + bytes([len(tl)]) + tl))
    # BER produced by other implementations: the sample PDUs shipped with the examples (an X.509 certificate, an LDAP message, ...)
    for f_ in sorted(glob.glob(os.path.join(tc.repo, "examples", "sample.source.*", "sample-*.[bd]er"))):
        with open(f_, "rb") as fh:
            corpus.append(("shipped-sample", fh.read()))
    # deep but reasonable nesting
    for depth in (10, 50, 200):
        corpus.append(("nest%d" % depth, b"".join(b"\x30\x80" for _ in range(depth)) + b"\x05\x00" + b"\0\0" * depth))

    def roundtrip(item):
        kind, x = item
        rc, out, err, to = run_tool([unber, "-p", "-"], x)
        # the default (decoding, human-readable) mode walks the values themselves: OID arcs, strings, integers
        rcd, outd, errd, tod = run_tool([unber, "-"], x)
        rec = {"kind": kind, "x": x, "rc": rc, "err": err, "timeout": to, "out": out, "rcd": rcd, "errd": errd, "tod": tod}
        if rc == 0 and not to:
            rc2, out2, err2, to2 = run_tool([enber, "-"], out)
            rec.update(rc2=rc2, out2=out2, err2=err2, to2=to2)
        return rec

    with ThreadPoolExecutor(build.JOBS) as ex:
        recs = list(ex.map(roundtrip, corpus))
    for r in recs:
        chk.evaluations += 1
        x = r["x"]
        chk.seen(x)
        kind = r["kind"]
        if r["timeout"]:
            chk.inconcl("unber timeout")
            continue
        chk.evaluations += 1
        if not r["tod"] and (san_report(r["errd"]) or r["rcd"] < 0):
            k, fr = drv.classify_report(r["errd"])
            chk.violation({"tool": "unber", "symptom": "crash", "report": k, "frame": fr, "input": kind, "mode": "default"},
                          "unber (default mode, values printed) died on well-formed BER (%s): %s in %s" % (kind, k, fr),
                          {"input_hex": x.hex()[:4000], "stderr": r["errd"][-2000:]})
        elif not r["tod"] and r["rc"] == 0 and r["rcd"] != 0:
            chk.violation({"tool": "unber", "symptom": "default-mode-rejects", "input": kind, "mode": "default"},
                          "unber without -p exits %d on well-formed BER that unber -p accepts (%s): %s" % (r["rcd"], kind, r["errd"][:200]),
                          {"input_hex": x.hex()[:4000], "stderr": r["errd"][-2000:]})
        else:
            chk.count("default_mode_ok")
        if san_report(r["err"]) or r["rc"] < 0:
            k, fr = drv.classify_report(r["err"])
            chk.violation({"tool": "unber", "symptom": "crash", "report": k, "frame": fr, "input": kind},
                          "unber died on well-formed BER (%s): %s in %s" % (kind, k, fr),
                          {"input_hex": x.hex()[:4000], "stderr": r["err"][-2000:]})
            continue
        if r["rc"] != 0:
            chk.violation({"tool": "unber", "symptom": "rejected-wellformed", "input": kind},
                          "unber -p exit %d on well-formed BER (%s): %s" % (r["rc"], kind, r["err"][:200]),
                          {"input_hex": x.hex()[:4000], "stderr": r["err"][-2000:]})
            continue
        # structure comparison
        exp = []
        off = 0
        try:
            while off < len(x):
                node, nxt = der.parse_tlv(x, off)
                flatten(node, exp, 0)
                off = nxt
        except der.TLVError as e:
            chk.inconcl("reference parser rejected its own corpus: %s" % e)
            continue
        opens, closes = parse_unber(r["out"].decode("latin-1"))
        mismatch = None
        if len(opens) != len(exp):
            mismatch = "unber printed %d elements, the input has %d" % (len(opens), len(exp))
        else:
            for (form, o, cn, num, tl, v), (eo, ecls, enum_, econ, ehl, elen, etot) in zip(opens, exp):
                eform = "P" if not econ else ("I" if elen < 0 else "C")
                if (form, o, cn, num, tl, v) != (eform, eo, CLSNAME[ecls], enum_, ehl, elen):
                    mismatch = "at offset %d unber printed form=%s O=%d T=[%s%d] TL=%d V=%d, input has form=%s O=%d T=[%s%d] TL=%d V=%d" % (
                        eo, form, o, cn, num, tl, v, eform, eo, CLSNAME[ecls], enum_, ehl, elen)
                    break
            if not mismatch:
                # closing records: L = total length of the element
                cons = [e for e in exp if e[3]]
                # closes are in post-order; compare as multisets of (end offset, total)
                want = sorted((e[0] + e[6], e[6]) for e in cons)
                got = sorted((c[1] + (2 if c[0] == "I" else 0), c[2]) for c in closes)
                if want != got:
                    mismatch = "closing-tag O/L attributes %s differ from the TLV structure %s" % (got[:4], want[:4])
        if mismatch:
            chk.violation({"tool": "unber", "symptom": "structure", "input": kind},
                          "unber output disagrees with the TLV structure: " + mismatch,
                          {"input_hex": x.hex()[:4000], "unber": r["out"].decode("latin-1")[:3000]})
            continue
        if r.get("to2"):
            chk.inconcl("enber timeout")
            continue
        if san_report(r.get("err2", "")) or r.get("rc2", 0) < 0:
            k, fr = drv.classify_report(r["err2"])
            chk.violation({"tool": "enber", "symptom": "crash", "report": k, "frame": fr, "input": kind},
                          "enber died on unber output: %s in %s" % (k, fr),
                          {"input_hex": x.hex()[:4000], "stderr": r["err2"][-2000:]})
            continue
        if r["rc2"] != 0 or r["out2"] != x:
            chk.violation({"tool": "enber", "symptom": "roundtrip", "input": kind, "rc": r["rc2"]},
                          "enber(unber -p x) != x (%s; enber exit %d: %s)" % (kind, r["rc2"], r["err2"][:160]),
                          {"input_hex": x.hex()[:4000], "enber_out_hex": r["out2"].hex()[:4000],
                           "stderr": r["err2"][-1000:]})
            continue
        chk.count("roundtrip_ok")
    chk.sample({"input_hex": corpus[0][1].hex()[:200], "kind": corpus[0][0]})
    chk.sample({"input_hex": corpus[-5][1].hex()[:200], "kind": corpus[-5][0]})

    # ---------------------------------------------------------------- arbitrary bytes: safety
    hostile = []
    base = [x for k, x in corpus if len(x) < 3000]
    for i in range(400 if quick else 8000):
        x = bytearray(rng.choice(base))
        m = rng.choice(["trunc", "flip", "lenedit", "random", "splice", "insert"])
        if m == "trunc" and len(x) > 1:
            x = x[:rng.randrange(1, len(x))]
        elif m == "flip" and x:
            for _ in range(rng.choice([1, 1, 2, 5])):
                x[rng.randrange(len(x))] ^= 1 << rng.randrange(8)
        elif m == "lenedit" and len(x) > 2:
            p = rng.randrange(1, len(x))
            x[p:p + 1] = rng.choice([b"\x80", b"\x81\xff", b"\x84\xff\xff\xff\xff", b"\x88" + b"\xff" * 8,
                                     b"\x88\x7f" + b"\xff" * 7, b"\xff", b"\x7f", b"\x89" + b"\x01" * 9, b"\x00"])
        elif m == "random":
            x = bytearray(rng.getrandbits(8) for _ in range(rng.randrange(1, 64)))
        elif m == "splice":
            y = rng.choice(base)
            x = x[:rng.randrange(0, len(x) + 1)] + y[rng.randrange(0, len(y) + 1):]
        else:
            p = rng.randrange(0, len(x) + 1)
            x[p:p] = rng.choice([b"\x1f" + b"\xff" * 12 + b"\x7f", b"\x3f\x80\x80\x01", b"\x00\x00", b"\xbf\xff"])
        hostile.append(("mutated:" + m, bytes(x)))
    # over-long tag and length octet runs (the TL scratch buffer of unber), bare and nested
    for n in (3, 4, 5, 9, 10, 29, 30, 31, 32, 33, 34, 40, 64, 200, 1000):
        for fill in (b"\x80", b"\xff", b"\x81"):
            t = b"\x1f" + fill * n
            hostile.append(("long-tag", t + b"\x01\x00"))
            hostile.append(("long-tag", t))
            hostile.append(("long-tag", b"\x30\x80" + t + b"\x01\x00\x00\x00"))
            hostile.append(("long-tag", b"\xbf" + fill * n + b"\x7f\x00"))
    for n in (4, 5, 8, 9, 16, 29, 30, 31, 32, 33, 64, 126):
        for fill in (b"\x00", b"\xff", b"\x01"):
            hostile.append(("long-length", b"\x04" + bytes([0x80 | n]) + fill * n + b"AAAA"))
            hostile.append(("long-length", b"\x30\x80\x04" + bytes([0x80 | n]) + fill * n))
            hostile.append(("long-length", b"\x1f\x81\x81\x01" + bytes([0x80 | n]) + fill * (n - 1) + b"\x01A"))
    for depth in ([1000, 10000] if quick else [1000, 10000, 100000]):
        hostile.append(("bomb-indef-%d" % depth, b"\x30\x80" * depth))
        hostile.append(("bomb-def-%d" % depth, b"\x30\x84\x7f\xff\xff\xff" * depth))
        hostile.append(("bomb-closed-%d" % depth, b"\x30\x80" * depth + b"\0\0" * depth))

    def hostile_run(item):
        kind, x = item
        rc, out, err, to = run_tool([unber, "-p", "-"], x, timeout=120)
        if not to and not san_report(err) and rc >= 0 and len(x) < 100000:
            # the default mode on the same bytes: only a sanitizer report or a signal counts
            rcd, outd, errd, tod = run_tool([unber, "-"], x, timeout=120)
            if not tod and (san_report(errd) or rcd < 0):
                return kind + "/default-mode", x, rcd, errd, tod
        return kind, x, rc, err, to

    with ThreadPoolExecutor(build.JOBS) as ex:
        hres = list(ex.map(hostile_run, hostile))
    for kind, x, rc, err, to in hres:
        chk.evaluations += 1
        chk.seen(x)
        fam = kind.split("-")[0] if kind.startswith("bomb") else kind
        if to:
            chk.violation({"tool": "unber", "symptom": "hang", "input": fam}, "unber did not terminate on %s" % kind,
                          {"input_hex": x.hex()[:2000]})
            continue
        if san_report(err) or rc < 0:
            k, fr = drv.classify_report(err)
            if "stack-overflow" in err:
                k = "stack-overflow"
            chk.violation({"tool": "unber", "symptom": "crash", "report": k, "frame": fr, "input": fam},
                          "unber died on arbitrary input (%s, %d bytes): %s in %s" % (kind, len(x), k, fr),
                          {"input_hex": x.hex()[:2000], "input_len": len(x), "stderr": err[-2000:]})
            continue
        errtxt = "\n".join(l for l in err.split("\n") if "runtime error:" not in l).strip()
        if rc != 0 and not errtxt:
            chk.violation({"tool": "unber", "symptom": "silent-failure", "input": fam},
                          "unber exit %d without a diagnostic on %s" % (rc, kind), {"input_hex": x.hex()[:2000]})
            continue
        chk.count("hostile_ok_rc%d" % (0 if rc == 0 else 1))
    chk.sample({"hostile_hex": hostile[3][1].hex()[:120], "kind": hostile[3][0]})
    chk.extra["wellformed_inputs"] = len(corpus)
    chk.extra["hostile_inputs"] = len(hostile)
    return chk.finish()
