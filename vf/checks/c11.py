"""C11 -- ambiguous or inconsistent specifications are rejected (diagnostic, no
code written), unambiguous ones accepted."""
import hashlib, os, random, re, shutil, subprocess
from concurrent.futures import ThreadPoolExecutor
from .. import build, core, drv
from . import c11faults


def run(tier, seed):
    chk = core.Check("C11", tier, seed)
    quick = tier == "quick"
    rng = random.Random(seed)
    chk.rule = ("tag-structure modules (EXPLICIT/IMPLICIT/AUTOMATIC, manual tags, reference chains, untagged CHOICEs nested in CHOICE/SET/SEQUENCE "
                "optional runs) that the independent X.680 model (vf/checks/c11faults.py:problems) calls unambiguous, and every single-edit mutant of "
                "each (retag onto a sibling's tag, remove a tag, swap in a sibling's type, make a member OPTIONAL, duplicate an identifier, duplicate an "
                "enumeration name/value, dangling reference), plus a catalogue of identifiers / enumeration items repeated on either side of an extension marker; asn1c (ASan build) must exit 0 iff the model finds no problem, and on rejection print a "
                "diagnostic and write no file; plus the project's own verdicts: every shipped compiler-test file marked -SE must be rejected likewise, every file "
                "marked -OK must pass asn1c -E -F; distinct = distinct module texts")
    chk.assumptions = ["SEQUENCE cases carry no extension additions (the statement speaks of root components)",
                       "COMPONENTS OF and parameterised types are not generated"]
    tc = build.toolchain()
    asn1c = tc.tool("asn1c", "asan")
    skel = os.path.join(tc.repo, "skeletons")
    work = build.scratch_dir("c11")
    nbase = int(os.environ.get("VERIF_NMOD", 6 if quick else 60))
    jobs = []
    for i in range(nbase):
        tg = c11faults.TagGen(seed * 1000 + i)
        base = tg.module("T%d" % i)
        if c11faults.problems(base):
            chk.inconcl("generator produced an ambiguous base (skipped)")
            continue
        jobs.append(("base", base.text(), [], base.tagdefault))
        n = 0
        for fam, m in c11faults.mutants(base, rng, limit=(40 if quick else 400)):
            try:
                pr = c11faults.problems(m)
            except Exception as e:
                chk.inconcl("model error on mutant: %s" % type(e).__name__)
                continue
            jobs.append((fam, m.text(), pr, m.tagdefault))
            n += 1
    for fam, m in c11faults.catalogue(rng, limit=(120 if quick else 3000)):
        try:
            pr = c11faults.problems(m)
        except Exception as e:
            chk.inconcl("model error on catalogue module: %s" % type(e).__name__)
            continue
        jobs.append((fam, m.text(), pr, m.tagdefault))
    mk = list(c11faults.marker_catalogue())
    if quick:
        mk = rng.sample(mk, 60)
    for fam, m in mk:
        try:
            pr = c11faults.problems(m)
        except Exception as e:
            chk.inconcl("model error on marker module: %s" % type(e).__name__)
            continue
        jobs.append((fam, m.text(), pr, m.tagdefault))
    # the project's own verdicts: compiler-test files marked -SE (semantic error) must be rejected by a full compilation,
    # files marked -OK must pass the parser and the semantic checker (asn1c -E -F, what the marker speaks about)
    import glob
    shipped = sorted(glob.glob(os.path.join(tc.repo, "tests/tests-asn1c-compiler/*-SE.asn1"))) + \
        sorted(glob.glob(os.path.join(tc.repo, "tests/tests-asn1c-compiler/*-OK.asn1")))
    if quick:
        shipped = rng.sample(shipped, 40)
    for f_ in shipped:
        with open(f_, encoding="latin-1") as fh:
            txt_ = fh.read()
        nm_ = os.path.basename(f_)
        if nm_.endswith("-SE.asn1"):
            jobs.append(("shipped-SE", txt_, [("marked-semantic-error", nm_, "-")], nm_, []))
        else:
            jobs.append(("shipped-OK", txt_, [], nm_, ["-E", "-F"] + (["-fbless-SIZE"] if "blessSize" in nm_ else [])))
    seen_txt = set()
    uniq = []
    for j in jobs:
        if j[1] not in seen_txt:
            seen_txt.add(j[1])
            uniq.append(j)

    def one(job):
        fam, text, pr, td = job[:4]
        flags_ = job[4] if len(job) > 4 else []
        h = hashlib.sha1(text.encode()).hexdigest()[:12]
        d = os.path.join(work, h)
        os.makedirs(os.path.join(d, "o"), exist_ok=True)
        with open(os.path.join(d, "m.asn1"), "w", encoding="latin-1") as f:
            f.write(text)
        try:
            p = subprocess.run([asn1c, "-S", skel, "-D", "o"] + flags_ + ["m.asn1"], cwd=d, stdout=subprocess.PIPE, stderr=subprocess.PIPE,
                               env=build.tool_env(), timeout=120)
            rc, err = p.returncode, p.stderr.decode("latin-1")
        except subprocess.TimeoutExpired:
            rc, err = -99, "timeout"
        nfiles = len(os.listdir(os.path.join(d, "o")))
        shutil.rmtree(d, ignore_errors=True)
        return rc, err, nfiles

    with ThreadPoolExecutor(build.JOBS) as ex:
        results = list(ex.map(one, uniq))
    for (fam, text, pr, td), (rc, err, nfiles) in zip([u[:4] for u in uniq], results):
        chk.evaluations += 1
        chk.seen(text)
        diag = "\n".join(l for l in err.split("\n") if "runtime error:" not in l).strip()
        rule = pr[0][0] if pr else "-"
        key = {"family": fam, "model_rule": rule, "tagging": td, "via": (pr[0][2] if pr and len(pr[0]) > 2 else "-")}
        if fam.startswith("shipped"):
            key["file"] = td        # the file name travels in the tagging slot of the job
        replay = {"module": text, "model_problems": pr[:5], "asn1c_rc": rc, "stderr": err[-1200:]}
        if rc == -99:
            chk.inconcl("asn1c timeout")
            continue
        if rc < 0 or rc >= 128 or "AddressSanitizer" in err:
            k2, frame = drv.classify_report(err)
            chk.violation(dict(key, symptom="compiler-died", report=k2, frame=frame),
                          "asn1c died (%s in %s) on a %s mutant" % (k2, frame, fam), replay)
            continue
        if pr:
            chk.count("model_rejects")
            if rc == 0:
                chk.violation(dict(key, symptom="accepted-ambiguous"),
                              "asn1c accepted (exit 0, %d files written) a module the X.680 model calls inconsistent: %s at %s [%s mutant, %s TAGS]" % (
                                  nfiles, pr[0][0], pr[0][1], fam, td), replay)
            else:
                if not diag:
                    chk.violation(dict(key, symptom="rejected-without-diagnostic"), "asn1c exit %d with empty stderr" % rc, replay)
                if nfiles:
                    chk.violation(dict(key, symptom="rejected-but-wrote-files"),
                                  "asn1c exit %d but left %d files in the output directory" % (rc, nfiles), replay)
                chk.count("correctly_rejected:" + rule)
        else:
            chk.count("model_accepts")
            if rc != 0:
                dcl = re.sub(r'"[^"]*"', '"X"', re.sub(r"\d+", "N", (diag.split("\n") or [""])[0]))[:70]
                chk.violation(dict(key, symptom="rejected-unambiguous", diag=dcl),
                              "asn1c rejected (exit %d: %s) a module the X.680 model calls unambiguous [%s, %s TAGS]" % (
                                  rc, (diag.split("\n") or [""])[0][:160], fam, td), replay)
            else:
                chk.count("correctly_accepted:" + fam)
        if len(chk.samples) < 6 and fam != "base":
            chk.sample({"family": fam, "model_verdict": pr[:1] or "unambiguous", "asn1c_exit": rc, "module_tail": text[-300:]})
    return chk.finish()
