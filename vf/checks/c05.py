"""C05 -- chunked (restartable) decoding gives the same result as one-shot
decoding; every proper prefix of a valid encoding yields RC_WMORE."""
import os, random
from .. import build, core, drv, harness, taboo
from ..asn import gen, model, der
from . import variants

SYNS = ["BER", "OER", "BXER", "CXER"]


def run(tier, seed):
    chk = core.Check("C05", tier, seed)
    quick = tier == "quick"
    rng = random.Random(seed)
    chk.rule = ("encodings of generated values -- reference DER, reference BER variants (indefinite lengths, constructed strings, "
                "long-form lengths), and the library's own OER / BASIC-XER / CANONICAL-XER output -- are decoded one-shot and then "
                "with the manual's restart protocol: every 2-chunk split point (exhaustive up to the length cap) and sampled k-chunk "
                "schedules incl. 1-byte feeding and zero-byte presentations; judged: final rc, total consumed and DER of the result "
                "equal the one-shot run, the prefix call answers RC_WMORE with consumed <= presented; "
                "the same for the shipped sample PDUs of the X.509 / LDAP (thorough: UMTS RRC) examples and the library's encodings of them; "
                "distinct = distinct (encoding, schedule); resumption states (phase,step,sign(left)) seen at RC_WMORE are counted")
    chk.assumptions = ["UPER is excluded: documented as not restartable",
                       "only encodings whose one-shot decode is RC_OK with full consumption are used (others are C03's business)"]
    tc = build.toolchain()
    tb = taboo.Taboo("C05")
    nmod = int(os.environ.get("VERIF_NMOD", 3 if quick else 24))
    cap = 160 if quick else 2048
    prof = gen.profile(max_len=10)
    builds = harness.make_many(tc, [seed * 1000 + 300 + i for i in range(nmod)], prof, atoms=10, composites=10)
    from ..asn import shapes
    builds.append(harness.make(tc, seed * 1000 + 398, prof, module_fn=lambda g: shapes.build2("SH2")))
    # the shipped real-world specifications with their shipped sample PDUs (vf/realpdu.py); no model: b.mod is None
    from .. import realpdu
    rnames = realpdu.names(quick)
    rblds = realpdu.make_many(tc, rnames)
    builds += [rblds[n_] for n_ in rnames]
    states = set()
    for b in builds:
        if b.exe is None:
            chk.inconcl("module not built (%s)" % b.error[0])
            continue
        if b.mod is None:
            corpus = real_corpus(chk, tc, b)
        else:
            corpus = model_corpus(chk, tb, b, rng, quick)
        # ---- stage 2: schedules
        cases, meta = [], {}
        cid = 0
        for tname, syn, fam, x, d0, v in corpus:
            n = len(x)
            if n < 2:
                continue
            if n <= cap:
                splits = list(range(1, n))
                exhaustive = True
            else:
                splits = sorted(set([1, 2, n - 1, n - 2] + [rng.randrange(1, n) for _ in range(40)]))
                exhaustive = False
            ops = ["setreg r=3 in=%s" % drv.hx(x), "dec s=0 t=%s syn=%s inreg=3" % (tname, syn), "enc s=0 syn=DER"]
            sched = []
            for k in splits:
                sched.append(("2split", str(k)))
            # k-chunk schedules
            sched.append(("bytewise", ",".join(["1"] * min(n, 400))))
            for _ in range(2 if quick else 6):
                parts = []
                left = n
                while left > 0 and len(parts) < 60:
                    c = rng.choice([0, 1, 1, 2, 3, 5, 8, 13, 64])
                    c = min(c, left)
                    parts.append(str(c))
                    left -= c
                sched.append(("random", ",".join(parts)))
            sched.append(("zero-first", "0,0,%d" % max(1, n // 2)))
            for kind, ch in sched:
                ops += ["dec s=1 t=%s syn=%s inreg=3 chunks=%s ctx=1" % (tname, syn, ch), "enc s=1 syn=DER", "free s=1"]
            # pure prefixes (no rest): must be WMORE
            for k in ([1, n // 2, n - 1] if n > 2 else [1]):
                ops += ["dec s=1 t=%s syn=%s inreg=3 chunks=%d rest=0" % (tname, syn, k), "free s=1"]
                sched.append(("prefix", str(k)))
            cid += 1
            cases.append(drv.Case(cid, ops))
            meta[cid] = (tname, syn, fam, x, d0, sched, exhaustive, v)
        res = drv.run_parallel(b.exe, cases, per_case_timeout=120)
        for cid, (tname, syn, fam, x, d0, sched, exhaustive, v) in meta.items():
            r = res.get(cid)
            t = b.mod.types[tname] if b.mod is not None else None
            n = len(x)
            replay = {"module": b.text, "pdu": tname, "syntax": syn, "family": fam, "input_hex": x.hex()}
            if r is None or r.status == "notrun":
                chk.inconcl("case not run")
                continue
            fids = tb.hit(taboo.ids(b.mod, t, v, syn)) if syn != "BER" and b.mod is not None else []
            if r.status in ("crash", "hang"):
                kind, frame = drv.classify_report(r.stderr)
                chk.evaluations += 1
                chk.violation({"symptom": r.status, "report": kind, "frame": frame, "syntax": syn, "family": fam, "fids": fids},
                              "%s (%s in %s) during chunked %s decoding of %s" % (r.status, kind, frame, syn, tname),
                              dict(replay, stderr=r.stderr[-3000:], last_events=r.events[-3:]))
                continue
            ev = r.events
            one = ev[1]
            if one.get("rc") != "OK":
                chk.inconcl("one-shot decode of corpus item not OK (C03/C01)")
                continue
            oc = int(one["consumed"])
            oder = ev[2].get("out")
            trailing = n - oc      # BASIC-XER: trailing newline not consumed
            i = 3
            for kind, ch in sched:
                if i >= len(ev):
                    break
                chk.evaluations += 1
                chk.seen((b.seed, tname, syn, x, kind, ch))
                d = ev[i]
                if kind == "prefix":
                    i += 2
                    k = int(ch)
                    if d.get("rc") != "WMORE" or int(d["consumed"]) > k:
                        sym = "prefix-" + d.get("rc", "?")
                        if d.get("rc") == "OK" and k >= oc:
                            sym = "prefix-OK-complete-but-for-unconsumed-tail"
                        chk.violation({"symptom": sym, "syntax": syn, "family": fam, "kind": model_kind(b, t), "fids": fids},
                                      "%s: prefix of %d/%d bytes of a valid %s encoding (%s) answered %s consumed=%s" % (
                                          tname, k, n, syn, fam, d.get("rc"), d.get("consumed")),
                                      dict(replay, prefix=k, event=d))
                    continue
                e = ev[i + 1]
                i += 3
                for st in (d.get("ctxs") or "-").split(","):
                    if st != "-":
                        states.add((model_kind(b, t), syn, st))
                bad = None
                if d.get("anomaly") not in ("0", None):
                    bad = "consumed-exceeds-presented"
                elif d.get("rc") != "OK":
                    bad = "final-" + d.get("rc", "?")
                elif int(d["consumed"]) != oc:
                    bad = "consumed-differs"
                elif e.get("out") != oder:
                    bad = "value-differs"
                elif kind == "2split":
                    first = (d.get("trace") or "").split(";")[0]
                    k = int(ch)
                    if k < oc and not first.startswith("WMORE:"):
                        bad = "prefix-" + first.split(":")[0]
                if syn == "OER":
                    chk.count("oer_restart_%s:%s" % ("bad" if bad else "ok", "+".join(sorted(x_ for x_ in kinds_in(b, t)))[:200]))
                if bad:
                    chk.violation({"symptom": bad, "syntax": syn, "family": fam, "schedule": kind,
                                   "kind": model_kind(b, t), "fids": fids,
                                   "has_ext": any(x_.endswith("+ext") for x_ in kinds_in(b, t))},
                                  "%s %s (%s, %d bytes) schedule %s=%s: %s; one-shot OK/%d, chunked %s/%s trace %s" % (
                                      tname, syn, fam, n, kind, ch[:40], bad, oc, d.get("rc"), d.get("consumed"),
                                      (d.get("trace") or "")[:160]),
                                  dict(replay, schedule=ch, event=d, oneshot=one, der_chunked=e.get("out"), der_oneshot=oder))
            if exhaustive:
                chk.count("encodings_with_exhaustive_2splits")
            chk.count("encodings")
            if len(chk.samples) < 5:
                chk.sample({"pdu": tname, "syntax": syn, "family": fam, "bytes": n, "input_hex": x.hex()[:100],
                            "schedules": len(sched), "exhaustive_2splits": exhaustive})
    chk.extra["resumption_states_seen"] = len(states)
    chk.extra["resumption_states_sample"] = sorted("%s/%s/%s" % s for s in states)[:40]
    return chk.finish()


def model_corpus(chk, tb, b, rng, quick):
    from ..asn import shapes
    enc = der.Encoder(b.mod)
    # ---- stage 1: corpus
    cases, meta = [], {}
    cid = 0
    for tname, t in b.mod.types.items():
        for v in (shapes.values2(b.mod, tname, rng, quick) if b.mod.name == "SH2" else b.gen.values(t, 2 if quick else 4)):
            try:
                tree = enc.tree(t, v)
            except der.Unsupported:
                continue
            ref = der.serialize(tree)
            cid += 1
            cases.append(drv.Case(cid, ["dec s=0 t=%s syn=BER in=%s" % (tname, drv.hx(ref))] +
                                  ["enc s=0 syn=%s" % s for s in ("DER", "OER", "BXER", "CXER")]))
            meta[cid] = (tname, t, v, ref, tree)
    res = drv.run_parallel(b.exe, cases, confirm=False)
    corpus = []     # (tname, syn, family, bytes, der0)
    for cid, (tname, t, v, ref, tree) in meta.items():
        r = res.get(cid)
        if r is None or r.status != "ok" or len(r.events) < 5 or r.events[0].get("rc") != "OK":
            continue
        d0 = r.events[1].get("out")
        corpus.append((tname, "BER", "der", ref, d0, v))
        for fam, vb in variants.ber_variants(rng, tree, 2 if quick else 5):
            corpus.append((tname, "BER", fam, vb, d0, v))
        for s, e in zip(("OER", "BXER", "CXER"), r.events[2:5]):
            if int(e.get("rc", -1)) >= 0 and e.get("out") not in (None, "trunc", "q"):
                if tb.hit(taboo.ids(b.mod, t, v, s)) and rng.random() > 0.15:
                    continue
                corpus.append((tname, s, "own", drv.unhex(e["out"]), d0, v))
    return corpus


def real_corpus(chk, tc, b):
    """the shipped samples of this specification and the library's own encodings of them"""
    from .. import realpdu
    corpus = []
    for spec, pdu, syn, label, data in realpdu.samples(tc, [b.name]):
        r = drv.run_cases(b.exe, [drv.Case(1, ["dec s=0 t=%s syn=%s in=%s" % (pdu, syn, drv.hx(data))] +
                                             ["enc s=0 syn=%s" % s for s in ("DER", "OER", "BXER", "CXER")] + ["free s=0"])], confirm=False).get(1)
        if r is None or r.status != "ok" or len(r.events) < 5 or r.events[0].get("rc") != "OK":
            chk.inconcl("shipped sample %s not decoded (C03)" % label)
            continue
        d0 = r.events[1].get("out")
        if syn == "BER":
            corpus.append((pdu, "BER", "sample", data[:int(r.events[0]["consumed"])], d0, None))
        elif d0 not in (None, "trunc", "q") and int(r.events[1].get("rc", -1)) >= 0:
            corpus.append((pdu, "BER", "own", drv.unhex(d0), d0, None))
        for s, e in zip(("OER", "BXER", "CXER"), r.events[2:5]):
            if int(e.get("rc", -1)) >= 0 and e.get("out") not in (None, "trunc", "q"):
                corpus.append((pdu, s, "own", drv.unhex(e["out"]), d0, None))
    chk.count("real_encodings", len(corpus))
    return corpus


def model_kind(b, t):
    if b.mod is None:
        return "real"
    return b.mod.resolve(t).kind


def kinds_in(b, t, depth=6, seen=None):
    """kinds of the type nodes below (and including) t, references resolved, extensibility marked"""
    if b.mod is None:
        return {"real"}
    seen = seen if seen is not None else set()
    rt = b.mod.resolve(t)
    if id(rt) in seen or depth < 0:
        return set()
    seen.add(id(rt))
    k = rt.kind
    out = {k + ("+ext" if getattr(rt, "ext", None) is not None and k in ("SEQUENCE", "SET", "CHOICE") else "")}
    if k in ("SEQUENCE", "SET", "CHOICE"):
        for c in rt.all_comps():
            out |= kinds_in(b, c.type, depth - 1, seen)
    elif k in ("SEQUENCE OF", "SET OF"):
        out |= kinds_in(b, rt.elem, depth - 1, seen)
    return out
