"""C10 -- every accepted specification yields C code that builds; the compiler
never dies; what it cannot handle it rejects with a diagnostic."""
import glob, hashlib, os, random, re, shutil, subprocess
from concurrent.futures import ThreadPoolExecutor
from .. import build, core, drv
from ..asn import gen, model
from . import c11faults

OPTIONS = ["-fcompound-names", "-fwide-types", "-findirect-choice", "-fno-constraints", "-no-gen-PER", "-no-gen-OER",
           "-fincludes-quoted"]


def sh(cmd, cwd=None, timeout=300, env=None):
    try:
        p = subprocess.run(cmd, cwd=cwd, stdout=subprocess.PIPE, stderr=subprocess.PIPE, timeout=timeout, env=env)
        return p.returncode, p.stdout, p.stderr.decode("latin-1")
    except subprocess.TimeoutExpired:
        return -99, b"", "timeout"


def features_of(text):
    """coarse static features of a module text, for known-finding matching"""
    f = []
    if re.search(r"DEFAULT -\d", text):
        f.append("negative-default")
    if re.search(r"\{\s*NULL IDENTIFIED BY", text):
        f.append("ioc-null-row")
    if re.search(r"::=\s*\w+\s*\{\s*NULL\s*\}", text):
        f.append("parameter-NULL")
    if re.search(r"SET \{\s*(\.\.\.\s*)?\}", text):
        f.append("empty-set")
    if re.search(r"OF (\[[^\]]*\] )?(IMPLICIT |EXPLICIT )?(SET|SEQUENCE) \(SIZE", text):
        f.append("of-sized-of")
    return f


def run(tier, seed):
    chk = core.Check("C10", tier, seed)
    quick = tier == "quick"
    rng = random.Random(seed)
    chk.rule = ("generated valid modules and modules with one injected semantic error x option sets (each documented option alone and random subsets); "
                "asn1c (ASan build of the current tree) must exit (never die by signal/abort/sanitizer report); exit 0 => exactly the delivered file set "
                "(emitted types + the skeleton files asn1c copied, as listed in the output directory) compiles as C99 and links with the generic driver, every "
                "emitted header parses as C++, and the descriptor-consistency walk over all PDUs reports no error; exit != 0 => non-empty diagnostic; "
                "distinct = distinct (module text, option set)")
    chk.assumptions = ["compile flags: gcc -std=gnu99 -O0 -w for the delivered C files; g++ -fsyntax-only for headers",
                       "UBSan reports of the compiler itself are recorded, not judged (recovering build), except null-pointer access reports: there the same command is repeated on an uninstrumented -O0 build of asn1c and a death by signal of that build is the verdict"]
    tc = build.toolchain()
    asn1c = tc.tool("asn1c", "asan")
    skel = os.path.join(tc.repo, "skeletons")
    drvsrc = os.path.join(build.VERIF, "vf", "driver", "vdriver.c")
    work = build.scratch_dir("c10")
    nmod = int(os.environ.get("VERIF_NMOD", 5 if quick else 40))
    jobs = []
    for i in range(nmod):
        prof = gen.profile(max_len=8, neg_defaults=(i % 3 == 0), second_root=(i % 4 == 1), empty_set=(i % 5 == 4),
                           named_bits=True, nested_of_size=(i % 6 == 5))
        g = gen.Gen(seed * 1000 + 900 + i, prof)
        mod = g.module("M%d" % i, atoms=rng.choice([6, 10, 14]), composites=rng.choice([6, 10, 14]))
        text = mod.text()
        optsets = [()]
        singles = [(o,) for o in OPTIONS]
        optsets += rng.sample(singles, 2 if quick else 7)
        for _ in range(1 if quick else 4):
            k = rng.randrange(2, 5)
            os_ = tuple(sorted(rng.sample(OPTIONS, k)))
            if "-no-gen-PER" in os_ and "-no-gen-OER" in os_:
                pass
            optsets.append(os_)
        for os_ in optsets:
            jobs.append(("valid", text, os_, "M%d" % i))
        # error-injected variants of this module (default options)
        for fam, ftext in c11faults.inject_all(mod, rng, limit=(3 if quick else 12)):
            jobs.append(("fault:" + fam, ftext, (), "M%d" % i))
        for fam, ftext in semantic_faults(text, rng):
            jobs.append(("fault:" + fam, ftext, (), "M%d" % i))

    # a fixed module of constructs the random generator does not produce (constrained REAL, a SET wider than one byte of
    # its mandatory-member bitmap, ...) under every single option and two combinations; plus hand-written faults
    for os_ in [()] + [(o,) for o in OPTIONS] + [("-fwide-types", "-fcompound-names"), ("-fwide-types", "-no-gen-OER")]:
        jobs.append(("valid", FIXED_MODULE, os_, "FX"))
    for fam, ftext in FIXED_FAULTS:
        jobs.append(("fault:" + fam, ftext, (), "FXF"))
    # constructs that are legal only with -fcompound-names (the same component identifier with named numbers in two types)
    for os_ in [("-fcompound-names",), ("-fcompound-names", "-fwide-types"), ("-fcompound-names", "-findirect-choice", "-fno-include-deps")]:
        jobs.append(("valid", FIXED_COMPOUND, os_, "FXC"))
    for os_ in [(), ("-fwide-types",), ("-no-gen-PER",)]:
        jobs.append(("valid", FIXED_QUADS, os_, "FXC"))
    # a collection whose element is kept in an unsigned long (the element needs a descriptor of its own); two of them in one
    # module share the anonymous name 'Member' and need -fcompound-names
    jobs.append(("valid", FIXED_UNSIGNED_OF, (), "FXC"))
    jobs.append(("valid", FIXED_UNSIGNED_OF.replace("END", "Uh ::= SEQUENCE { counters SET OF INTEGER (256..MAX), n INTEGER } END"), ("-fcompound-names",), "FXC"))
    for nm, ptext in FIXED_PARAM:
        for os_ in [(), ("-fcompound-names",), ("-fwide-types", "-findirect-choice")]:
            jobs.append(("valid", ptext, os_, "PAR:" + nm))
    # information object classes / sets (the random generator of this check has none): each shape under three option sets
    for nm, itext in FIXED_IOC:
        for os_ in [(), ("-fwide-types",), ("-fcompound-names", "-findirect-choice")]:
            jobs.append(("valid", itext, os_, "IOC:" + nm))

    # the shipped single-file specifications (compiler test corpus marked -OK, examples): constructs nobody here wrote by hand
    shipped = sorted(glob.glob(os.path.join(tc.repo, "tests/tests-asn1c-compiler/*-OK.asn1")))
    shipped += sorted(glob.glob(os.path.join(tc.repo, "examples/*.asn1")))
    if quick:
        shipped = rng.sample(shipped, min(len(shipped), 30))
    for f in shipped:
        with open(f, encoding="utf-8", errors="surrogateescape") as fh:
            stext = fh.read()
        for os_ in ([()] if quick else [(), ("-fcompound-names",), ("-fwide-types", "-findirect-choice")]):
            jobs.append(("shipped", stext, os_, "SHP:" + os.path.basename(f)))

    # identical (module text, option set) pairs reached through different families are compiled once
    seenjobs, ujobs = set(), []
    for j in jobs:
        if (j[1], j[2]) not in seenjobs:
            seenjobs.add((j[1], j[2]))
            ujobs.append(j)
    jobs = ujobs

    def one(job):
        kind, text, opts, name = job
        h = hashlib.sha1((text + " ".join(opts)).encode("utf-8", "surrogateescape")).hexdigest()[:12]
        d = os.path.join(work, h)
        os.makedirs(os.path.join(d, "o"), exist_ok=True)
        with open(os.path.join(d, "m.asn1"), "w", encoding="utf-8", errors="surrogateescape") as f:
            f.write(text)
        rec = {"kind": kind, "opts": opts, "text": text, "dir": d, "name": name}
        rc, so, se = sh([asn1c, "-S", skel, "-pdu=all"] + list(opts) + ["-D", "o", "m.asn1"], cwd=d, env=build.tool_env(), timeout=180)
        rec["rc"] = rc
        rec["stderr"] = se
        rec["ubsan"] = sorted(set(re.findall(r"runtime error: ([^\n]{0,80})", se)))
        if 0 <= rc < 128 and re.search(r"runtime error: (member access within|load of|store to) (null|misaligned address 0x0000000000)", se):
            # the recovering UBSan build went on after a null-pointer access the optimiser had made harmless; the same
            # command on an uninstrumented -O0 build tells whether a user's binary is killed there
            rc0, _, se0 = sh([tc.tool("asn1c", "plain0"), "-S", skel, "-pdu=all"] + list(opts) + ["-D", "o0", "m.asn1"], cwd=d, env=build.tool_env(), timeout=180)
            shutil.rmtree(os.path.join(d, "o0"), ignore_errors=True)
            rec["plain0_rc"] = rc0
            if rc0 < 0 or rc0 >= 128:
                rec["rc"] = rc = rc0
                rec["stderr"] = se = se + "\n[uninstrumented -O0 build of asn1c: status %d]\n" % rc0 + se0[-600:]
        if rc != 0:
            shutil.rmtree(os.path.join(d, "o"), ignore_errors=True)
            return rec
        out = os.path.join(d, "o")
        cfiles = [f for f in sorted(os.listdir(out)) if f.endswith(".c") and f != "converter-example.c"]
        hfiles = [f for f in sorted(os.listdir(out)) if f.endswith(".h")]
        flags = ["-std=gnu99", "-O0", "-w", "-I.", "-DASN_PDU_COLLECTION"]
        if "-no-gen-OER" in opts:
            flags.append("-DASN_DISABLE_OER_SUPPORT")
        if "-no-gen-PER" in opts:
            flags.append("-DASN_DISABLE_PER_SUPPORT")
        errs = []
        objs = []
        for c in cfiles:
            rcc, _, e = sh(["gcc"] + flags + ["-c", c, "-o", c[:-2] + ".o"], cwd=out, timeout=120)
            if rcc != 0:
                errs.append((c, e[:600]))
                if len(errs) > 3:
                    break
            objs.append(c[:-2] + ".o")
        rec["cc_errors"] = errs
        if not errs:
            rcl, _, e = sh(["gcc"] + flags + ["-DVDRV_WEAK", "-idirafter", skel, drvsrc] + objs + ["-o", "drv", "-lm", "-lpthread"], cwd=out, timeout=120)
            rec["link_error"] = e[:800] if rcl != 0 else None
            # C++ compatibility of the emitted headers
            with open(os.path.join(out, "allhdr.cc"), "w") as f:
                f.write('extern "C" {\n' if False else "")
                for hh in hfiles:
                    f.write('#include "%s"\n' % hh)
                f.write("int main() { return 0; }\n")
            rcx, _, e = sh(["g++", "-fsyntax-only", "-w", "-I."] + [f_ for f_ in flags if f_.startswith("-DASN_")] + ["allhdr.cc"], cwd=out, timeout=120)
            rec["cxx_error"] = e[:800] if rcx != 0 else None
            if rcl == 0:
                with open(os.path.join(out, "s.txt"), "w") as f:
                    f.write("B 1\ndesc dump=0\nE 1\n")
                rcd, so2, e = sh(["./drv", "s.txt"], cwd=out, timeout=60)
                rec["desc"] = so2.decode("latin-1")
                rec["desc_rc"] = rcd
        shutil.rmtree(out, ignore_errors=True)
        return rec

    with ThreadPoolExecutor(build.JOBS) as ex:
        recs = list(ex.map(one, jobs))
    for rec in recs:
        chk.evaluations += 1
        kind, opts, text = rec["kind"], rec["opts"], rec["text"]
        chk.seen((text, opts))
        feats = features_of(text)
        key = {"input": kind.split(":")[0], "fault": kind.split(":")[-1], "options": " ".join(opts) or "-", "features": "+".join(feats) or "-"}
        if kind == "shipped":
            key["file"] = rec["name"][4:]
        replay = {"module": text, "options": opts, "asn1c_rc": rec["rc"], "stderr": rec["stderr"][-1500:]}
        rc = rec["rc"]
        if rc == -99:
            chk.violation(dict(key, symptom="compiler-hang"), "asn1c did not finish in 180 s", replay)
            continue
        if rc < 0 or rc >= 128 or "ERROR: AddressSanitizer" in rec["stderr"] or re.search(r"Assertion `[^\n]*' failed", rec["stderr"]):
            k2, frame = drv.classify_report("\n".join(l for l in rec["stderr"].split("\n") if "runtime error:" not in l))
            chk.violation(dict(key, symptom="compiler-died", report=k2, frame=frame),
                          "asn1c died (status %s, %s in %s) on a %s module with options [%s]" % (rc, k2, frame, kind, " ".join(opts)), replay)
            continue
        for u in rec["ubsan"]:
            chk.count("ubsan_in_compiler: " + u[:60])
        if rc != 0:
            diag = "\n".join(l for l in rec["stderr"].split("\n") if "runtime error:" not in l).strip()
            if not diag:
                chk.violation(dict(key, symptom="rejected-without-diagnostic"), "asn1c exit %d with empty stderr (%s)" % (rc, kind), replay)
            elif kind == "shipped":
                chk.count("shipped_file_rejected_with_diagnostic")
            elif kind == "valid":
                if rec["name"] in ("FX", "FXC"):
                    chk.inconcl("the fixed constructs module was rejected: " + diag.split("\n")[0][:100])
                chk.count("valid_module_rejected_with_diagnostic")
                chk.extra.setdefault("rejection_diagnostics", {})
                dcl = re.sub(r"\d+", "N", diag.split("\n")[0])[:80]
                chk.extra["rejection_diagnostics"][dcl] = chk.extra["rejection_diagnostics"].get(dcl, 0) + 1
            else:
                chk.count("faulty_module_rejected")
            continue
        chk.count("accepted")
        if rec.get("cc_errors"):
            c, e = rec["cc_errors"][0]
            ecl = re.sub(r"\d+", "N", (re.search(r"error: ([^\n]*)", e) or re.search(r"([^\n]+)", e)).group(1))[:70]
            chk.violation(dict(key, symptom="emitted-code-does-not-compile", err=ecl),
                          "asn1c exit 0 (%s, options [%s]) but %s does not compile: %s" % (kind, " ".join(opts), c, ecl),
                          dict(replay, cc_errors=rec["cc_errors"]))
            continue
        if rec.get("link_error"):
            ecl = re.sub(r"\d+", "N", (re.search(r"undefined reference to `([^']*)", rec["link_error"]) or
                                       re.search(r"([^\n]+)", rec["link_error"])).group(1))[:70]
            chk.violation(dict(key, symptom="emitted-code-does-not-link", err=ecl),
                          "asn1c exit 0 (%s, options [%s]) but the delivered file set does not link: %s" % (kind, " ".join(opts), ecl),
                          dict(replay, link_error=rec["link_error"]))
            continue
        if rec.get("cxx_error"):
            ecl = re.sub(r"\d+", "N", (re.search(r"error: ([^\n]*)", rec["cxx_error"]) or re.search(r"([^\n]+)", rec["cxx_error"])).group(1))[:70]
            chk.violation(dict(key, symptom="headers-not-c++-compatible", err=ecl),
                          "emitted headers are not C++-includable (%s, options [%s]): %s" % (kind, " ".join(opts), ecl),
                          dict(replay, cxx_error=rec["cxx_error"]))
        d = rec.get("desc", "")
        if rec.get("desc_rc") != 0 or "R desc errors=0" not in d:
            errs = [l for l in d.split("\n") if l.startswith("R descerr")]
            ecl = re.sub(r"^\S+:", "X:", errs[0][10:]) if errs else "driver failed rc=%s" % rec.get("desc_rc")
            ecl = re.sub(r"\d+", "N", ecl)[:70]
            chk.violation(dict(key, symptom="descriptor-inconsistent", err=ecl),
                          "descriptor consistency walk failed (%s, options [%s]): %s" % (kind, " ".join(opts), (errs or [ecl])[0][:200]),
                          dict(replay, desc_errors=errs[:10]))
        else:
            chk.count("built_and_consistent")
        if len(chk.samples) < 5:
            chk.sample({"kind": kind, "options": opts, "module_head": text[:300], "asn1c_rc": rc})
    nvalid = sum(1 for r in recs if r["kind"] == "valid")
    nrej = chk.counters.get("valid_module_rejected_with_diagnostic", 0)
    if nvalid and nrej * 2 > nvalid:
        chk.inconcl("more than half of the valid modules were rejected (%d of %d): nothing was built from them" % (nrej, nvalid))
    return chk.finish()


FIXED_MODULE = """FX DEFINITIONS EXPLICIT TAGS ::= BEGIN

Ratio ::= REAL (-1..1)

Lvl ::= SEQUENCE {
    level REAL (0..100),
    r Ratio OPTIONAL,
    big INTEGER (0..18446744073709551615) OPTIONAL
}

Wide ::= SET {
    a0 [0] INTEGER OPTIONAL,
    a1 [1] BOOLEAN,
    a2 [2] INTEGER,
    a3 [3] NULL OPTIONAL,
    a4 [4] BOOLEAN,
    a5 [5] INTEGER OPTIONAL,
    a6 [6] IA5String,
    a7 [7] INTEGER,
    a8 [8] BOOLEAN OPTIONAL,
    a9 [9] REAL,
    a10 [10] INTEGER DEFAULT 7,
    a11 [11] OCTET STRING,
    a12 [12] NULL OPTIONAL,
    a13 [13] BOOLEAN,
    a14 [14] Ratio OPTIONAL,
    a15 [15] INTEGER,
    a16 [16] BOOLEAN OPTIONAL,
    a17 [17] BIT STRING
}

Rec ::= SEQUENCE {
    v INTEGER,
    next Rec OPTIONAL,
    alt CHOICE { leaf NULL, more [0] Rec } OPTIONAL
}

Bits ::= BIT STRING { first(0), last(31) } (SIZE(32))

-- DEFAULT character strings that need care inside a C string literal
Dq ::= SEQUENCE {
    q IA5String DEFAULT "say ""hi"" twice",
    b VisibleString DEFAULT "back\\slash",
    e [0] IA5String DEFAULT "ends with \\",
    p PrintableString DEFAULT "plain",
    n INTEGER
}

-- the same tag number in several classes, and the same tag several times, in one tag map
Tg ::= SEQUENCE {
    hint CHOICE { h1 [0] INTEGER, h2 [1] BOOLEAN } OPTIONAL,
    serial [APPLICATION 5] IMPLICIT INTEGER OPTIONAL,
    count [5] IMPLICIT INTEGER OPTIONAL,
    priv [PRIVATE 5] IMPLICIT INTEGER OPTIONAL,
    flag BOOLEAN,
    again [5] IMPLICIT INTEGER OPTIONAL,
    u5 [UNIVERSAL 5] IMPLICIT NULL,
    last [APPLICATION 5] IMPLICIT BOOLEAN
}

Deep ::= SEQUENCE OF DeepEl

DeepEl ::= SET OF CHOICE { da [0] Ratio, db [1] SEQUENCE { x Bits } }

END
"""

# permitted alphabets of wide string types whose highest character sits next to the 256-entry table limit, written
# with quadruples (a module of its own: asn1c's lexer loses track of later numbers after a quadruple)
FIXED_QUADS = ("FQ DEFINITIONS ::= BEGIN\nBm1 ::= BMPString (FROM (\"A\"..\"Z\" | {0,0,0,255}))\nBm2 ::= BMPString (FROM (\"A\"..\"Z\" | {0,0,1,0}))\n"
               "Bm3 ::= BMPString (FROM (\"A\"..\"Z\" | {0,0,1,1}))\nUm ::= UniversalString (FROM (\"a\"..\"c\" | {0,0,1,0}))\nEND\n")

FIXED_UNSIGNED_OF = ("FU DEFINITIONS ::= BEGIN Uo ::= SEQUENCE OF INTEGER (0..4294967295) Un ::= INTEGER (0..MAX) "
                     "Iso ::= ISO646String IsoS ::= SEQUENCE { a ISO646String (SIZE(1..4)) OPTIONAL, b GraphicString OPTIONAL, c T61String OPTIONAL } END")

FIXED_COMPOUND = """FXC DEFINITIONS AUTOMATIC TAGS ::= BEGIN

Request ::= SEQUENCE { version INTEGER { v1(0), v2(1) }, kind ENUMERATED { get(0), put(1) }, body CHOICE { text IA5String, raw OCTET STRING } }

Reply ::= SEQUENCE { version INTEGER { v1(0), v2(1) }, kind ENUMERATED { ok(0), failed(1) }, body CHOICE { text IA5String, code INTEGER }, bits BIT STRING { first(0), last(7) } OPTIONAL }

Exchange ::= SEQUENCE { rq Request, rp Reply OPTIONAL, log SEQUENCE OF SEQUENCE { version INTEGER { v1(0) }, note UTF8String } }

END
"""

# parameterized types (not produced by the random generator)
FIXED_PARAM = [
    ("type-arguments", "P1 DEFINITIONS AUTOMATIC TAGS ::= BEGIN\nNamed ::= INTEGER (0..7)\nParam { T } ::= SEQUENCE { a INTEGER, b T, c SEQUENCE OF T OPTIONAL }\n"
                       "X1 ::= Param { INTEGER }\nX2 ::= Param { Named }\nX3 ::= Param { IA5String }\nX4 ::= Param { SEQUENCE { x BOOLEAN } }\n"
                       "Pair { A, B } ::= CHOICE { l A, r B }\nX5 ::= Pair { BOOLEAN, X1 }\nEND\n"),
    ("NULL-argument", "P2 DEFINITIONS AUTOMATIC TAGS ::= BEGIN\nParam { T } ::= SEQUENCE { a INTEGER, b T }\nX ::= Param { NULL }\nEND\n"),
]

_IOC_HEAD = "FS ::= CLASS { &id INTEGER UNIQUE, &Type } WITH SYNTAX { &Type IDENTIFIED BY &id }\n"
FIXED_IOC = [
    ("named-rows", "I1 DEFINITIONS AUTOMATIC TAGS ::= BEGIN\nA ::= INTEGER\nB ::= SEQUENCE { x IA5String, y BOOLEAN OPTIONAL }\n"
                   "Frame ::= SEQUENCE { ident FS.&id({FT}), value FS.&Type({FT}{@ident}), ... }\n" + _IOC_HEAD +
                   "FT FS ::= { { A IDENTIFIED BY 1 } | { B IDENTIFIED BY 200 }, ... }\nEND\n"),
    ("built-in-rows", "I2 DEFINITIONS AUTOMATIC TAGS ::= BEGIN\nFrame ::= SEQUENCE { ident FS.&id({FT}), value FS.&Type({FT}{@ident}) }\n" + _IOC_HEAD +
                      "FT FS ::= { { INTEGER IDENTIFIED BY 1 } | { IA5String IDENTIFIED BY 2 } | { BOOLEAN IDENTIFIED BY 3 } | { REAL IDENTIFIED BY 4 } }\nEND\n"),
    ("built-in-NULL-row", "I3 DEFINITIONS AUTOMATIC TAGS ::= BEGIN\nFrame ::= SEQUENCE { ident FS.&id({FT}), value FS.&Type({FT}{@ident}) }\n" + _IOC_HEAD +
                          "FT FS ::= { { NULL IDENTIFIED BY 1 } | { BOOLEAN IDENTIFIED BY 2 } }\nEND\n"),
    ("same-type-twice", "I4 DEFINITIONS AUTOMATIC TAGS ::= BEGIN\nT ::= INTEGER\nU ::= UTF8String\n"
                        "Frame ::= SEQUENCE { ident FS.&id({FT}), value FS.&Type({FT}{@ident}) }\n" + _IOC_HEAD +
                        "FT FS ::= { { T IDENTIFIED BY 1 } | { U IDENTIFIED BY 2 } | { T IDENTIFIED BY 3 } | { T IDENTIFIED BY 4 } }\nEND\n"),
    ("recursive-row", "I5 DEFINITIONS AUTOMATIC TAGS ::= BEGIN\nA ::= INTEGER\nWrap ::= SEQUENCE { n INTEGER, inner Frame OPTIONAL }\n"
                      "Frame ::= SEQUENCE { ident FS.&id({FT}), value FS.&Type({FT}{@ident}) }\n" + _IOC_HEAD +
                      "FT FS ::= { { A IDENTIFIED BY 1 } | { Wrap IDENTIFIED BY 2 } }\nEND\n"),
    ("optional-open-type", "I6 DEFINITIONS AUTOMATIC TAGS ::= BEGIN\nT ::= INTEGER\nU ::= BOOLEAN\n"
                           "Frame ::= SEQUENCE { ident FS.&id({FT}), value FS.&Type({FT}{@ident}) OPTIONAL }\n" + _IOC_HEAD +
                           "FT FS ::= { { T IDENTIFIED BY 1 } | { U IDENTIFIED BY 2 } }\nEND\n"),
    ("untagged-explicit", "I7 DEFINITIONS ::= BEGIN\nA ::= INTEGER\nB ::= IA5String\n"
                          "Frame ::= SEQUENCE { ident FS.&id({FT}), value FS.&Type({FT}{@ident}) }\n" + _IOC_HEAD +
                          "FT FS ::= { { A IDENTIFIED BY 1 } | { B IDENTIFIED BY 2 } }\nEND\n"),
    ("constrained-id-single-object", "I8 DEFINITIONS IMPLICIT TAGS ::= BEGIN\nA ::= OCTET STRING\n"
                                     "Frame ::= SEQUENCE { ident [0] FC.&id({FT}), value [1] FC.&Type({FT}{@.ident}) }\n"
                                     "FC ::= CLASS { &id INTEGER (0..255) UNIQUE, &Type } WITH SYNTAX { &Type IDENTIFIED BY &id }\n"
                                     "only FC ::= { A IDENTIFIED BY 136 }\nFT FC ::= { only }\nEND\n"),
    ("two-open-types", "I9 DEFINITIONS AUTOMATIC TAGS ::= BEGIN\nA ::= INTEGER\nB ::= BOOLEAN\n"
                       "Frame ::= SEQUENCE { ident FS.&id({FT}), value FS.&Type({FT}{@ident}), other FS.&Type({FT}{@ident}) }\n" + _IOC_HEAD +
                       "FT FS ::= { { A IDENTIFIED BY 1 } | { B IDENTIFIED BY 2 } }\nEND\n"),
]

FIXED_FAULTS = [
    ("undefined-in-SET", "F1 DEFINITIONS EXPLICIT TAGS ::= BEGIN T ::= SET { a NoSuch1, b INTEGER } END\n"),
    ("undefined-in-CHOICE", "F2 DEFINITIONS IMPLICIT TAGS ::= BEGIN T ::= CHOICE { a NoSuch2, b BOOLEAN, c INTEGER } END\n"),
    ("undefined-after-OPTIONAL", "F3 DEFINITIONS EXPLICIT TAGS ::= BEGIN T ::= SEQUENCE { a INTEGER OPTIONAL, b NoSuch3, c BOOLEAN } END\n"),
    ("undefined-OPTIONAL", "F4 DEFINITIONS ::= BEGIN T ::= SEQUENCE { a NoSuch4 OPTIONAL, b BOOLEAN DEFAULT TRUE, c INTEGER } END\n"),
    ("undefined-in-OF", "F5 DEFINITIONS ::= BEGIN T ::= SEQUENCE OF NoSuch5 END\n"),
    ("undefined-components-of", "F6 DEFINITIONS ::= BEGIN T ::= SEQUENCE { a INTEGER, COMPONENTS OF NoSuch6 } END\n"),
    ("undefined-value-in-constraint", "F7 DEFINITIONS ::= BEGIN T ::= INTEGER (1..nosuch7) END\n"),
    ("undefined-class", "F8 DEFINITIONS ::= BEGIN T ::= SEQUENCE { a NOSUCH.&id, b BOOLEAN } END\n"),
    ("duplicate-identifier-in-additions", "F11 DEFINITIONS ::= BEGIN T ::= SEQUENCE { id INTEGER, ..., level INTEGER (0..7), text UTF8String OPTIONAL, level BOOLEAN } END\n"),
    ("duplicate-alternative-in-additions", "F12 DEFINITIONS AUTOMATIC TAGS ::= BEGIN T ::= CHOICE { a INTEGER, ..., b BOOLEAN, b NULL } END\n"),
    ("duplicate-enumeration-in-additions", "F13 DEFINITIONS ::= BEGIN T ::= ENUMERATED { a, ..., b, b } END\n"),
    ("duplicate-identifier-root-and-addition", "F14 DEFINITIONS AUTOMATIC TAGS ::= BEGIN T ::= SET { a INTEGER, b BOOLEAN, ..., a NULL } END\n"),
    ("duplicate-identifier-not-last", "F15 DEFINITIONS ::= BEGIN T ::= SEQUENCE { a INTEGER, b BOOLEAN, a UTF8String, c NULL } END\n"),
    ("components-of-other-kind", "F18 DEFINITIONS AUTOMATIC TAGS ::= BEGIN Base ::= SEQUENCE { x INTEGER, y BOOLEAN OPTIONAL } Loc ::= SET { COMPONENTS OF Base, z IA5String } END\n"),
    ("components-of-choice", "F19 DEFINITIONS ::= BEGIN Base ::= CHOICE { x INTEGER, y BOOLEAN } S ::= SEQUENCE { a [0] NULL, COMPONENTS OF Base } END\n"),
    ("recursive-untagged-choice", "F16 DEFINITIONS ::= BEGIN C0 ::= CHOICE { a INTEGER, rec C0, b [8] BOOLEAN } END\n"),
    ("recursive-untagged-choice-indirect", "F17 DEFINITIONS ::= BEGIN C0 ::= CHOICE { a INTEGER, other C1 } C1 ::= CHOICE { b BOOLEAN, back C0, s SEQUENCE OF NULL } END\n"),
    ("inverted-size", "F9 DEFINITIONS ::= BEGIN T ::= IA5String (SIZE(5..2)) END\n"),
    ("inverted-alphabet", "F10 DEFINITIONS ::= BEGIN T ::= IA5String (FROM(\"z\"..\"a\")) END\n"),
]


def semantic_faults(text, rng):
    """a few text-level semantic errors beyond the tag/identifier catalogue"""
    out = []
    m = re.search(r"INTEGER \((-?\d+)\.\.(-?\d+)\)", text)
    if m:
        out.append(("inverted-range", text.replace(m.group(0), "INTEGER (%s..%s)" % (m.group(2), str(int(m.group(1)) - 1)), 1)))
    m = re.search(r"(BOOLEAN) DEFAULT (TRUE|FALSE)", text)
    if m:
        out.append(("default-type-mismatch", text.replace(m.group(0), "BOOLEAN DEFAULT 5", 1)))
    m = re.search(r"ENUMERATED \{ e0\((-?\d+)\)", text)
    if m:
        out.append(("enum-default-unknown", text.replace("END", "ZZ ::= SEQUENCE { a ENUMERATED { x(1) } DEFAULT nosuch }\n\nEND", 1)))
    m = re.search(r"OCTET STRING \(SIZE\((\d+)\)\)", text)
    if m:
        out.append(("negative-size", text.replace(m.group(0), "OCTET STRING (SIZE(-1))", 1)))
    return out
