"""Independent X.680 distinctness / uniqueness verdict on a model Module, the
tag-structure module generator for C11, and the single-fault injection
catalogue (also used by C10 for 'modules with injected semantic errors')."""
import copy, random
from ..asn import model
from ..asn.model import Type, Comp, Module

SIMPLE = ["BOOLEAN", "INTEGER", "NULL", "OCTET STRING", "IA5String", "REAL", "BIT STRING", "UTF8String",
          "OBJECT IDENTIFIER", "ENUMERATED", "VisibleString", "UTCTime"]


# --------------------------------------------------------------------------- verdict
def problems(mod):
    """list of (rule, where) that make the module ambiguous/inconsistent per the statement of C11"""
    out = []
    seen = set()

    def visit(t, where):
        if id(t) in seen:
            return
        seen.add(id(t))
        if t.kind == "REF":
            if t.ref not in mod.types:
                out.append(("undefined-type", "%s -> %s" % (where, t.ref)))
            return
        if t.kind == "ENUMERATED":
            items = list(t.items) + list(t.ext_items or [])
            names = [n for n, v in items]
            vals = [v for n, v in items]
            if len(set(names)) != len(names):
                out.append(("duplicate-enum-name", where))
            if len(set(vals)) != len(vals):
                out.append(("duplicate-enum-value", where))
            return
        if t.kind in ("SEQUENCE", "SET", "CHOICE"):
            comps = t.all_comps()
            names = [c.name for c in comps]
            if len(set(names)) != len(names):
                out.append(("duplicate-identifier", where))
            if mod.tagdefault == "AUTOMATIC" and t.ext and not any(c.type.tag for c in (t.comps or []) + (t.comps2 or [])) \
                    and any(c.type.tag for c in t.ext):
                # X.680 25.8 / 29.?: the decision to tag automatically is taken on the root; tagged additions under an
                # automatically tagged root are an error (asn1c: "extensions are tagged but root components are not")
                out.append(("tagged-addition-untagged-root", where))
            # make sure every referenced type exists before computing tags
            for c in comps:
                visit(c.type, where + "." + c.name)
            if any(p[0] == "undefined-type" for p in out):
                return
            try:
                tagsets = [mod.outer_tags(c) for c in comps]
            except (KeyError, ValueError):
                return
            def exposes_ext(ct, depth=0):
                """the component's outermost tags are those of an untagged extensible CHOICE (X.680 52: its conceptual
                future additions clash with those of another such component in the same scope)"""
                if depth > 20:
                    return False
                if ct.tag is not None:
                    return False
                if ct.kind == "REF":
                    return ct.ref in mod.types and exposes_ext(mod.types[ct.ref], depth + 1)
                if ct.kind != "CHOICE":
                    return False
                if ct.ext is not None:
                    return True
                return any(a.autotag is None and exposes_ext(a.type, depth + 1) for a in ct.all_comps())
            def via(c):
                # the component is a *reference* to an untagged CHOICE (tags reached through a named choice)
                return "choice-ref" if (c.type.kind == "REF" and c.autotag is None and not mod.tag_chain(c.type)) else \
                    ("choice-inline" if (c.type.kind == "CHOICE" and c.autotag is None and not mod.tag_chain(c.type)) else "direct")
            if t.kind in ("CHOICE", "SET"):
                if t.ext is not None:
                    # the type's own extension marker stands for a conceptual future addition as well
                    for c in comps:
                        if c.autotag is None and exposes_ext(c.type):
                            out.append(("extensible-choices-clash-%s" % t.kind, "%s: %s/..." % (where, c.name), "choice"))
                for i in range(len(comps)):
                    for j in range(i + 1, len(comps)):
                        if comps[i].autotag is None and comps[j].autotag is None and exposes_ext(comps[i].type) and exposes_ext(comps[j].type):
                            out.append(("extensible-choices-clash-%s" % t.kind, "%s: %s/%s" % (where, comps[i].name, comps[j].name), "choice"))
                        if tagsets[i] & tagsets[j]:
                            out.append(("tag-collision-%s" % t.kind, "%s: %s/%s" % (where, comps[i].name, comps[j].name),
                                        "+".join(sorted([via(comps[i]), via(comps[j])]))))
            else:
                root = list(t.comps or [])
                rts = tagsets[:len(root)]
                i = 0
                while i < len(root):
                    if root[i].optional or root[i].has_default:
                        j = i
                        while j < len(root) and (root[j].optional or root[j].has_default):
                            j += 1
                        group = list(range(i, min(j + 1, len(root))))     # the run and the component following it
                        for a in range(len(group)):
                            for b in range(a + 1, len(group)):
                                ca, cb = root[group[a]], root[group[b]]
                                if ca.autotag is None and cb.autotag is None and exposes_ext(ca.type) and exposes_ext(cb.type):
                                    out.append(("extensible-choices-clash-SEQUENCE", "%s: %s/%s" % (where, ca.name, cb.name), "choice"))
                                if rts[group[a]] & rts[group[b]]:
                                    out.append(("tag-collision-SEQUENCE", "%s: %s/%s" % (where, root[group[a]].name, root[group[b]].name),
                                                "+".join(sorted([via(root[group[a]]), via(root[group[b]])]))))
                        i = j
                    else:
                        i += 1
            return
        if t.kind in ("SEQUENCE OF", "SET OF"):
            visit(t.elem, where + ".*")
    for n, t in mod.types.items():
        visit(t, n)
    return out


# --------------------------------------------------------------------------- base modules
class TagGen:
    def __init__(self, seed):
        self.rng = random.Random(seed)
        self.n = 0

    def enum(self):
        k = self.rng.randrange(2, 5)
        base = self.rng.choice([0, 0, 0, -3, -50])
        items = [("e%d" % i, base + i * self.rng.choice([1, 3])) for i in range(k)]
        ext = None
        if self.rng.random() < 0.4:
            # additions ascend among themselves (X.680 20.4) and may lie anywhere relative to the root values;
            # a collision with a root value is a duplicate the model reports
            v = self.rng.choice([-40, -7, 1, max(x for _, x in items) + 1])
            ext = []
            for j in range(self.rng.randrange(0, 4)):
                ext.append(("x%d" % j, v))
                v += self.rng.randrange(1, 4)
        return Type("ENUMERATED", items=items, ext_items=ext)

    def simple(self, kind=None):
        k = kind or self.rng.choice(SIMPLE)
        if k == "ENUMERATED":
            return self.enum()
        return Type(k)

    def module(self, name):
        rng = self.rng
        mod = Module(name, rng.choice(["EXPLICIT", "IMPLICIT", "AUTOMATIC", "EXPLICIT", "IMPLICIT"]))
        self.mod = mod
        # named simple types, some tagged
        names = []
        for i in range(6):
            t = self.simple()
            if rng.random() < 0.3:
                t.tag = (rng.choice("CAP"), rng.randrange(0, 6), rng.choice([None, "IMPLICIT", "EXPLICIT"]))
            mod.add("S%d" % i, t)
            names.append("S%d" % i)
        # reference chains
        for i in range(3):
            t = Type("REF", ref=rng.choice(names))
            if rng.random() < 0.4:
                t.tag = (rng.choice("CA"), rng.randrange(0, 6), rng.choice([None, "EXPLICIT"]))
            mod.add("R%d" % i, t)
            names.append("R%d" % i)
        # untagged choices usable as members
        choices = []
        for i in range(3):
            c = self.constructed("CHOICE", names, [], allow_choice=False)
            if c is not None:
                mod.add("U%d" % i, c)
                choices.append("U%d" % i)
        for i in range(8):
            k = rng.choice(["CHOICE", "SET", "SEQUENCE", "SEQUENCE"])
            c = self.constructed(k, names, choices, allow_choice=True)
            if c is not None:
                mod.add("T%d" % i, c)
        for t in mod.types.values():
            _setmod(t, mod)
        mod.finalize()
        return mod

    def member(self, names, choices, allow_choice):
        rng = self.rng
        r = rng.random()
        if allow_choice and choices and r < 0.2:
            return Type("REF", ref=rng.choice(choices))
        if r < 0.55:
            return Type("REF", ref=rng.choice(names))
        if allow_choice and r < 0.62:
            # inline untagged choice of two simple kinds
            ks = rng.sample(SIMPLE, 2)
            self.n += 1
            return Type("CHOICE", comps=[Comp("i%da" % self.n, self.simple(ks[0])), Comp("i%db" % self.n, self.simple(ks[1]))])
        t = self.simple()
        if t.kind == "ENUMERATED":
            return Type("REF", ref=rng.choice(names))
        return t

    def constructed(self, kind, names, choices, allow_choice):
        """build a constructed type that is unambiguous by construction (verified with problems())"""
        rng = self.rng
        for attempt in range(30):
            n = rng.randrange(2, 6)
            comps = []
            for i in range(n):
                self.n += 1
                mt = self.member(names, choices, allow_choice)
                nm = "c%d" % self.n
                c = Comp(nm, mt)
                if kind != "CHOICE" and rng.random() < 0.45:
                    c.optional = True
                    # some of them DEFAULT instead of OPTIONAL (same tag rules, another flag in the compiler)
                    if mt.kind in ("BOOLEAN", "INTEGER") and rng.random() < 0.5:
                        c.optional = False
                        c.has_default = True
                        c.default = True if mt.kind == "BOOLEAN" else 5
                # manual tags on some members
                if rng.random() < 0.35 and mt.tag is None:
                    mode = rng.choice([None, "IMPLICIT", "EXPLICIT"])
                    mt.tag = ("C", rng.randrange(0, 8), mode)
                    if mode == "IMPLICIT":
                        try:
                            save, mt.tag = mt.tag, None
                            empty = not self.mod.tag_chain(mt)
                            mt.tag = save
                        except (KeyError, ValueError):
                            empty = True
                            mt.tag = save
                        if empty:
                            mt.tag = (mt.tag[0], mt.tag[1], "EXPLICIT")
                comps.append(c)
            t = Type(kind, comps=comps)
            # extension markers only on top-level CHOICEs: a marker in a SEQUENCE, or in an untagged CHOICE used as a
            # member, brings in the "potential future addition" tag rules, which the statement does not cover
            if kind == "CHOICE" and allow_choice and rng.random() < 0.3:
                t.ext = []
            if kind == "CHOICE" and not allow_choice and len(comps) >= 3 and rng.random() < 0.5:
                # untagged CHOICE meant to be used as a member: its last alternative(s) become extension additions, whose tags
                # take part in the distinctness rules of the enclosing type like those of the root alternatives
                k = rng.choice([1, 1, 2]) if len(comps) > 3 else 1
                t = Type(kind, comps=comps[:-k], ext=comps[-k:])
            probe = Module("P", self.mod.tagdefault)
            probe.types = dict(self.mod.types)
            probe.types["X"] = t
            probe.finalize()
            if not problems(probe):
                for c in comps:
                    c.autotag = None
                return t
        return None


def _setmod(t, mod, seen=None):
    seen = seen if seen is not None else set()
    if id(t) in seen:
        return
    seen.add(id(t))
    t.module = mod
    if t.kind in ("SEQUENCE", "SET", "CHOICE"):
        for c in t.all_comps():
            _setmod(c.type, mod, seen)
    elif t.kind in ("SEQUENCE OF", "SET OF"):
        _setmod(t.elem, mod, seen)


# --------------------------------------------------------------------------- fault injection
def _constructed_nodes(mod):
    out = []
    seen = set()

    def visit(t, where):
        if id(t) in seen:
            return
        seen.add(id(t))
        if t.kind in ("SEQUENCE", "SET", "CHOICE"):
            out.append((where, t))
            for c in t.all_comps():
                visit(c.type, where + "." + c.name)
        elif t.kind in ("SEQUENCE OF", "SET OF"):
            visit(t.elem, where + ".*")
    for n, t in mod.types.items():
        visit(t, n)
    return out


def _clone(mod):
    m = copy.deepcopy(mod)
    for t in m.types.values():
        for_each_comp(t, lambda c: setattr(c, "autotag", None))
    m.finalize()
    return m


def for_each_comp(t, fn, seen=None):
    seen = seen if seen is not None else set()
    if id(t) in seen:
        return
    seen.add(id(t))
    if t.kind in ("SEQUENCE", "SET", "CHOICE"):
        for c in t.all_comps():
            fn(c)
            for_each_comp(c.type, fn, seen)
    elif t.kind in ("SEQUENCE OF", "SET OF"):
        for_each_comp(t.elem, fn, seen)


def mutants(mod, rng, limit=None):
    """yield (family, mutated Module).  Each applies ONE edit; whether it makes the module
    ambiguous is decided afterwards by problems()."""
    nodes = _constructed_nodes(mod)
    plans = []
    for ni, (where, t) in enumerate(nodes):
        comps = t.all_comps()
        for i in range(len(comps)):
            for j in range(len(comps)):
                if i == j:
                    continue
                plans.append(("retag", ni, i, j))
                plans.append(("untag", ni, i, j))
                plans.append(("swaptype", ni, i, j))
            if i + 1 < len(comps):
                plans.append(("dupident", ni, i, i + 1))
            plans.append(("dangling", ni, i, 0))
            plans.append(("make-optional", ni, i, 0))
    enums = [n for n, t in mod.types.items() if t.kind == "ENUMERATED" and len(t.items) >= 2]
    for n in enums:
        plans.append(("dupenumname", n, 0, 0))
        plans.append(("dupenumvalue", n, 0, 0))
    rng.shuffle(plans)
    if limit:
        # keep a spread over families
        byfam = {}
        for p in plans:
            byfam.setdefault(p[0], []).append(p)
        plans = []
        while len(plans) < limit and any(byfam.values()):
            for f in list(byfam):
                if byfam[f]:
                    plans.append(byfam[f].pop())
    for fam, a, i, j in plans:
        m = _clone(mod)
        if fam in ("dupenumname", "dupenumvalue"):
            t = m.types[a]
            if fam == "dupenumname":
                t.items[1] = (t.items[0][0], t.items[1][1])
            else:
                t.items[1] = (t.items[1][0], t.items[0][1])
            yield fam, m
            continue
        where, t = _constructed_nodes(m)[a]
        comps = t.all_comps()
        ci, cj = comps[i], comps[j] if j < len(comps) else None
        if fam == "retag":
            tags = m.outer_tags(ci)
            if not tags:
                continue
            cls, num = sorted(tags)[0]
            if cls == "U":
                continue
            cj.type.tag = (cls, num, "EXPLICIT")
        elif fam == "untag":
            if cj.type.tag is None:
                continue
            cj.type.tag = None
        elif fam == "swaptype":
            if ci.type.kind in ("CHOICE", "SEQUENCE", "SET", "ENUMERATED"):
                continue    # copying an inline type duplicates its member names -> asn1c's (documented) C name clash
            # give j the same underlying type as i (keeps j's own tag if any)
            tag = cj.type.tag
            if cj.has_default:
                cj.has_default, cj.optional = False, True       # the DEFAULT value belongs to the old type
            cj.type = copy.deepcopy(ci.type)
            cj.type.tag = None
            if tag is not None:
                mode = tag[2]
                if mode == "IMPLICIT" and not m.tag_chain(cj.type):
                    mode = "EXPLICIT"       # IMPLICIT may not be written on an untagged CHOICE (X.680 31.2.7)
                cj.type.tag = (tag[0], tag[1], mode)
            _setmod(cj.type, m)
        elif fam == "dupident":
            cj.name = ci.name
        elif fam == "dangling":
            tag = ci.type.tag
            if ci.has_default:
                ci.has_default, ci.optional = False, True
            ci.type = Type("REF", ref="NoSuchType", tag=(tag[0], tag[1], "EXPLICIT") if tag else None)
        elif fam == "make-optional":
            if t.kind == "CHOICE" or ci.optional or ci.has_default:
                continue
            ci.optional = True
        for_each_comp(t, lambda c: setattr(c, "autotag", None))
        m.finalize()
        yield fam, m


def catalogue(rng, limit=None):
    """systematic small modules around the tag-distinctness rules: a SEQUENCE run (every length 1..3 of OPTIONAL / DEFAULT
    components in front of a mandatory one), a SET and a CHOICE, in which two positions carry the INTEGER tag -- directly, through
    a reference, or through an untagged CHOICE (root alternative, extension addition, nested choice); and the twin module in
    which the second carrier has another tag.  Whether a module is ambiguous is decided by problems()."""
    carriers = ["direct", "ref", "choice-root", "choice-add", "choice-nested"]
    fillers = [("BOOLEAN", True), ("OCTET STRING", b"\x00"), ("REAL", 0.0), ("BIT STRING", None), ("NULL", None)]
    plans = []
    for scope in ("SEQUENCE", "SET", "CHOICE"):
        for n in ((2, 3, 4) if scope == "SEQUENCE" else (2, 3)):
            for a in range(n):
                for b in range(a + 1, n):
                    for ca in carriers:
                        for cb in carriers:
                            flagsets = [None]
                            if scope == "SEQUENCE":
                                flagsets = [[rng.choice("OD") for _ in range(n - 1)] for _ in range(2)] + [["O"] * (n - 1), ["D"] * (n - 1)]
                            for fl in flagsets:
                                for twin in (False, True):
                                    plans.append((scope, n, a, b, ca, cb, tuple(fl) if fl else None, twin))
    rng.shuffle(plans)
    if limit:
        plans = plans[:limit]
    for k, (scope, n, a, b, ca, cb, fl, twin) in enumerate(plans):
        m = Module("K%d" % k, rng.choice(["EXPLICIT", "IMPLICIT", "AUTOMATIC"]))
        # the carrier type T is defined before or after the types it refers to (automatic tagging of a CHOICE defined
        # later must already be in effect when T looks through it)
        t_first = rng.random() < 0.5
        if t_first:
            m.add("T", None)

        def add_refs():
            m.add("S", Type("INTEGER"))
            m.add("U", Type("CHOICE", comps=[Comp("ux", Type("INTEGER")), Comp("uy", Type("IA5String"))]))
            m.add("V", Type("CHOICE", comps=[Comp("vy", Type("VisibleString"))], ext=[Comp("vx", Type("INTEGER"))]))
            m.add("W2", Type("CHOICE", comps=[Comp("wx", Type("INTEGER")), Comp("wq", Type("UTCTime"))]))
            m.add("W", Type("CHOICE", comps=[Comp("wy", Type("GeneralizedTime")), Comp("wz", Type("REF", ref="W2"))]))
        add_refs()

        def carrier(kind, other=False):
            if other:
                return Type("UTF8String")
            return {"direct": lambda: Type("INTEGER"), "ref": lambda: Type("REF", ref="S"), "choice-root": lambda: Type("REF", ref="U"),
                    "choice-add": lambda: Type("REF", ref="V"), "choice-nested": lambda: Type("REF", ref="W")}[kind]()
        comps = []
        fi = 0
        for i in range(n):
            if i == a:
                t = carrier(ca)
            elif i == b:
                t = carrier(cb, other=twin)
            else:
                t = Type(fillers[fi % len(fillers)][0])
                fi += 1
            c = Comp("c%d" % i, t)
            if scope == "SEQUENCE" and i < n - 1:
                f = fl[i]
                dv = {"BOOLEAN": True, "OCTET STRING": b"\x00", "REAL": 0.0, "INTEGER": 5}.get(t.kind)
                if f == "D" and dv is not None:
                    c.has_default, c.default = True, dv
                else:
                    c.optional = True
            comps.append(c)
        manual = ""
        if m.tagdefault == "AUTOMATIC" and rng.random() < 0.6:
            # one manual tag switches automatic tagging off for T: the automatically tagged alternatives of the CHOICEs
            # it looks through ([0], [1]) now meet T's own tags
            ci = rng.randrange(n)
            num = rng.choice([0, 0, 1, 9])
            comps[ci].type.tag = ("C", num, None)
            manual = ":manual[%d]@%d" % (num, ci)
        m.add("T", Type(scope, comps=comps))
        for t in m.types.values():
            _setmod(t, m)
        m.finalize()
        yield "catalogue:%s:%s/%s%s%s%s" % (scope, ca, cb, ":twin" if twin else "", ":T-first" if t_first else "", manual), m


def marker_catalogue():
    """identifiers and enumeration items repeated on either side of an extension marker: for SEQUENCE, SET, CHOICE (every
    component carries its own context tag, so nothing but the names is at stake) and ENUMERATED, the pair of equal names / values
    taken root+root, root+addition, addition+addition (neighbouring and not), and the twin without a repetition"""
    k = 0
    for tagdef in ("EXPLICIT", "AUTOMATIC"):
        for kind in ("SEQUENCE", "SET", "CHOICE"):
            for nroot, nadd in ((2, 2), (1, 3), (0, 2), (2, 0)):
                n = nroot + nadd
                pairs = [(i, j) for i in range(n) for j in range(i + 1, n)] + [None]
                for pr in pairs:
                    kinds = ["INTEGER", "BOOLEAN", "NULL", "IA5String", "OCTET STRING"]
                    comps = []
                    for i in range(n):
                        t = Type(kinds[i])
                        if tagdef != "AUTOMATIC":
                            t.tag = ("C", i, None)
                        c = Comp("m%d" % i, t)
                        if kind != "CHOICE" and i >= nroot and i % 2:
                            c.optional = True
                        comps.append(c)
                    if pr:
                        comps[pr[1]].name = comps[pr[0]].name
                    m = Module("X%d" % k, tagdef)
                    k += 1
                    m.add("T", Type(kind, comps=comps[:nroot], ext=comps[nroot:] if nadd else None))
                    for t in m.types.values():
                        _setmod(t, m)
                    m.finalize()
                    where = "none" if not pr else "+".join("root" if x < nroot else "add" for x in pr)
                    yield "marker:%s:%s" % (kind, where), m
                # a reference to a type that does not exist, in the root and among the additions
                for pos in range(n):
                    comps = []
                    for i in range(n):
                        t = Type(kinds[i]) if i != pos else Type("REF", ref="NoSuchType")
                        if tagdef != "AUTOMATIC":
                            t.tag = ("C", i, "EXPLICIT" if i == pos else None)
                        c = Comp("m%d" % i, t)
                        if kind != "CHOICE" and i >= nroot and i % 2:
                            c.optional = True
                        comps.append(c)
                    m = Module("X%d" % k, tagdef)
                    k += 1
                    m.add("T", Type(kind, comps=comps[:nroot], ext=comps[nroot:] if nadd else None))
                    for t in m.types.values():
                        _setmod(t, m)
                    m.finalize()
                    yield "marker:%s:dangling-%s" % (kind, "root" if pos < nroot else "add"), m
    for items, ext in (([("a", 0), ("b", 1)], [("c", 2), ("d", 3)]), ([("a", 0)], [("b", 5), ("c", 6), ("d", 9)])):
        allit = items + ext
        for what in ("name", "value"):
            for i in range(len(allit)):
                for j in range(i + 1, len(allit)):
                    its = [list(x) for x in allit]
                    if what == "name":
                        its[j][0] = its[i][0]
                    else:
                        its[j][1] = its[i][1]
                    m = Module("X%d" % k, "EXPLICIT")
                    k += 1
                    m.add("T", Type("ENUMERATED", items=[tuple(x) for x in its[:len(items)]], ext_items=[tuple(x) for x in its[len(items):]]))
                    m.finalize()
                    where = "+".join("root" if x < len(items) else "add" for x in (i, j))
                    yield "marker:ENUMERATED-%s:%s" % (what, where), m


def inject_all(mod, rng, limit=8):
    """(family, text) of mutants that the model calls inconsistent -- for C10"""
    out = []
    for fam, m in mutants(mod, rng, limit=limit * 3):
        try:
            pr = problems(m)
        except Exception:
            continue
        if pr:
            try:
                txt = m.text()
            except ValueError:
                continue        # e.g. a DEFAULT that named the enumeration value the mutation has just removed
            out.append((fam + ":" + pr[0][0], txt))
        if len(out) >= limit:
            break
    return out
