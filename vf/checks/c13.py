"""C13 -- code-generation options never change the wire format."""
import itertools, os, random
from concurrent.futures import ThreadPoolExecutor
from .. import build, core, drv, harness, taboo
from ..asn import gen, model, der

REPR_OPTS = ["-fwide-types", "-fcompound-names", "-findirect-choice", "-fno-include-deps", "-fincludes-quoted", "-fno-constraints"]
CODEC_OPTS = ["-no-gen-OER", "-no-gen-PER"]
SYNS = ["DER", "UPER", "OER", "CXER", "BXER"]


def option_sets(tier, rng, full):
    sets = [()]
    for o in REPR_OPTS + CODEC_OPTS:
        sets.append((o,))
    if full:
        for n in range(2, len(REPR_OPTS) + 1):
            for c in itertools.combinations(REPR_OPTS, n):
                sets.append(c)
        for i in range(6):
            k = rng.randint(1, len(REPR_OPTS))
            sets.append(tuple(sorted(rng.sample(REPR_OPTS, k))) + (rng.choice(CODEC_OPTS),))
    else:
        for i in range(2 if tier == "quick" else 8):
            k = rng.randint(2, len(REPR_OPTS))
            s = tuple(sorted(rng.sample(REPR_OPTS, k)))
            if rng.random() < 0.4:
                s = s + (rng.choice(CODEC_OPTS),)
            sets.append(s)
    seen, out = set(), []
    for s in sets:
        if s not in seen:
            seen.add(s)
            out.append(s)
    return out


def disabled(opts, syn):
    return (syn == "OER" and "-no-gen-OER" in opts) or (syn == "UPER" and "-no-gen-PER" in opts)


def real_round(chk, tc, rng, quick):
    """the shipped X.509 / LDAP (thorough: UMTS RRC) specifications built under several option sets; every build decodes the shipped
    sample PDU and encodes it in the five syntaxes: all columns must equal those of the first build"""
    from .. import realpdu
    base = ("-fcompound-names", "-fwide-types")       # what the examples' makefiles use
    extra = [("-findirect-choice",), ("-fno-constraints",), ("-fno-include-deps",), ("-fincludes-quoted",)]
    ropts = ["-findirect-choice", "-fno-constraints", "-fno-include-deps", "-fincludes-quoted"]
    if not quick:
        extra += [tuple(sorted(rng.sample(ropts, k))) for k in (2, 3, 4)]
    for name in realpdu.names(quick):
        osets = [base] + [base + e for e in (extra if name != "RRC" else [("-findirect-choice", "-fno-constraints")])] + [("-fcompound-names",)]
        osets = list(dict.fromkeys(osets))
        root = build.scratch_dir("c13real")
        with ThreadPoolExecutor(6 if name != "RRC" else 3) as ex:
            blds = list(ex.map(lambda o: realpdu.make(tc, name, options=o, root=root), osets))
        cols = []
        smp = realpdu.samples(tc, [name])
        for b in blds:
            if b.exe is None:
                cols.append(None)
                if b is blds[0]:
                    chk.inconcl("shipped specification %s not built with the base options (%s)" % (name, b.error[0]))
                else:
                    chk.inconcl("shipped specification not built under an option set (%s)" % b.error[0])
                    chk.count("unbuilt:real:" + " ".join(b.options))
                continue
            cases = [drv.Case(i + 1, ["dec s=0 t=%s syn=%s in=%s" % (pdu, syn, drv.hx(data))] + ["enc s=0 syn=%s" % s_ for s_ in SYNS] + ["free s=0"])
                     for i, (spec, pdu, syn, label, data) in enumerate(smp)]
            cols.append(drv.run_parallel(b.exe, cases, per_case_timeout=120))
        if cols[0] is None:
            continue
        for b, res in zip(blds[1:], cols[1:]):
            if res is None:
                continue
            optkey = " ".join(b.options)
            for i, (spec, pdu, syn, label, data) in enumerate(smp):
                r0, r = cols[0].get(i + 1), res.get(i + 1)
                if r0 is None or r0.status != "ok" or len(r0.events) < 1 + len(SYNS):
                    continue
                replay = {"module": b.text, "pdu": pdu, "options": list(b.options), "base_options": list(base), "sample": "examples/" + label}
                key = {"options": optkey, "kind": "real", "fids": [], "sample": label}
                if r is None or r.status == "notrun":
                    chk.inconcl("case not run")
                    continue
                if r.status in ("crash", "hang"):
                    kind, frame = drv.classify_report(r.stderr)
                    chk.evaluations += 1
                    chk.violation(dict(key, symptom=r.status, report=kind, frame=frame),
                                  "shipped sample %s under [%s]: %s (%s in %s) where the base build runs clean" % (label, optkey, r.status, kind, frame),
                                  dict(replay, stderr=r.stderr[-2500:]))
                    continue
                ev0, ev = r0.events, r.events
                if ev[0].get("rc") != ev0[0].get("rc") or ev[0].get("consumed") != ev0[0].get("consumed"):
                    chk.evaluations += 1
                    wide0, widex = "-fwide-types" in blds[0].options, "-fwide-types" in b.options
                    if wide0 != widex and (ev[0] if wide0 else ev0[0]).get("rc") == "FAIL" and (ev0[0] if wide0 else ev[0]).get("rc") == "OK":
                        # the certificate's 128-bit serial number: the native-long build may reject, not mis-encode (assumption above)
                        chk.count("real_native_build_rejects_wide_value")
                        continue
                    chk.violation(dict(key, symptom="decode-differs", syntax=syn),
                                  "shipped sample %s under [%s]: decode answers %s/%s, base build %s/%s" % (
                                      label, optkey, ev[0].get("rc"), ev[0].get("consumed"), ev0[0].get("rc"), ev0[0].get("consumed")), replay)
                    continue
                for j, s_ in enumerate(SYNS):
                    chk.evaluations += 1
                    chk.seen(("real", label, s_, b.options))
                    e0, e = ev0[1 + j], ev[1 + j]
                    ok0, okx = e0.get("rc") not in ("-1", None), e.get("rc") not in ("-1", None)
                    if ok0 != okx:
                        chk.violation(dict(key, syntax=s_, symptom="encodes-only-with" if okx else "encodes-only-without"),
                                      "shipped sample %s: %s encoding %s under [%s] but %s under [%s]" % (
                                          label, s_, "succeeds" if okx else "fails", optkey, "succeeds" if ok0 else "fails", " ".join(base)), replay)
                    elif ok0 and e.get("out") != e0.get("out"):
                        chk.violation(dict(key, syntax=s_, symptom="bytes-differ"),
                                      "shipped sample %s: %s bytes under [%s] differ from those under [%s]" % (label, s_, optkey, " ".join(base)),
                                      dict(replay, syntax=s_, observed=(e.get("out") or "")[:4000], base=(e0.get("out") or "")[:4000]))
                    else:
                        chk.count("real_same_" + s_)
        import shutil
        shutil.rmtree(root, ignore_errors=True)


def run(tier, seed):
    chk = core.Check("C13", tier, seed)
    quick = tier == "quick"
    rng = random.Random(seed)
    chk.rule = ("one generated module built under several subsets of {-fwide-types, -fcompound-names, -findirect-choice, -fno-include-deps, -fincludes-quoted, "
                "-fno-constraints} and with -no-gen-OER / -no-gen-PER (quick: default + each single option + 2 random subsets; thorough: all 64 subsets for "
                "some modules, random subsets for the rest); every build runs the same script per (type, value): reference DER in, DER/UPER/OER/CXER/BXER "
                "out, then the default build's outputs in and DER out; judged: every column (rc, bytes) equals the default build's; a codec is compared "
                "only where both builds have it; likewise the shipped X.509 / LDAP (thorough: UMTS RRC) specifications with their sample PDUs under -fcompound-names "
                "plus further options; distinct = distinct (module, type, value, syntax, option set)")
    chk.assumptions = ["values beyond the native long range are compared only between builds that decode them (the native build may reject, not mis-encode)",
                       "a build that does not compile under an option set is C10's finding and inconclusive here"]
    tc = build.toolchain()
    tb = taboo.Taboo("C13")
    nmod = int(os.environ.get("VERIF_NMOD", 2 if quick else 10))
    nfull = 0 if quick else 2
    nvals = 4 if quick else 8
    prof = gen.profile(max_len=12)
    root = build.scratch_dir("c13")
    tc.tool("asn1c", "asan"); tc.skel("asan"); tc.driver_obj("vdriver", "asan"); tc.driver_obj("ledger", "asan")
    from ..asn import shapes
    real_round(chk, tc, rng, quick)
    for mi in range(nmod + 1):
        mseed = seed * 1000 + 1300 + mi
        osets = option_sets(tier, rng, mi < nfull or mi == nmod)
        shp = mi == nmod        # the last round is the fixed 'OPT' shapes module under every option subset
        with ThreadPoolExecutor(6) as ex:
            builds = list(ex.map(lambda o: harness.make(tc, mseed, prof, atoms=10, composites=8, options=o,
                                                        module_fn=(lambda g: shapes.build5("OPT")) if shp else None,
                                                        workroot=os.path.join(root, "m%d-%d" % (mi, osets.index(o)))), osets))
        base = builds[0]
        if base.exe is None:
            chk.inconcl("module not built with default options (%s)" % base.error[0])
            continue
        # phase 1: default build produces the reference columns
        cases, meta = [], {}
        cid = 0
        for tname, t in base.mod.types.items():
            for v in (shapes.values5(base.mod, tname, rng, quick) if shp else base.gen.values(t, nvals)):
                ref = harness.ref_der(base, t, v)
                if ref is None:
                    continue
                refs = [ref]
                # the same value as BER with the DEFAULT-equal components present: in memory the members are then set to
                # their default values, and whether an encoder leaves them out again is decided by generated comparison code
                # that differs between the native and the wide representation
                try:
                    alt = der.Encoder(base.mod, emit_defaults=True).encode(t, v)
                    if alt != ref:
                        refs.append(alt)
                except der.Unsupported:
                    pass
                for ref in refs:
                    cid += 1
                    ops = ["dec s=0 t=%s syn=BER in=%s" % (tname, drv.hx(ref))] + ["enc s=0 syn=%s" % s for s in SYNS]
                    # the default build's own reading of its outputs is the yardstick for the other builds' reading
                    for i, s in enumerate(SYNS):
                        ops += ["enc s=0 syn=%s reg=%d quiet=1" % (s, i + 1), "dec s=1 t=%s syn=%s inreg=%d" % (tname, s, i + 1), "enc s=1 syn=DER", "free s=1"]
                    cases.append(drv.Case(cid, ops))
                    meta[cid] = (tname, t, v, ref)
        res0 = drv.run_parallel(base.exe, cases)
        cols0, self0 = {}, {}
        for cid, (tname, t, v, ref) in meta.items():
            r = res0.get(cid)
            if r is None or r.status != "ok" or len(r.events) < 1 + len(SYNS) + 4 * len(SYNS):
                continue        # crashes of the default build belong to C01/C04
            cols0[cid] = [(e.get("rc"), e.get("out")) for e in r.events[: 1 + len(SYNS)]]
            n0 = 1 + len(SYNS)
            self0[cid] = [(r.events[n0 + 4 * i + 1].get("rc"), r.events[n0 + 4 * i + 2].get("out")) for i in range(len(SYNS))]
        # phase 2: every other build
        for b in builds[1:]:
            if b.exe is None:
                chk.inconcl("module not built under an option set (%s)" % b.error[0])
                chk.count("unbuilt:" + " ".join(b.options))
                continue
            if b.text != base.text:
                chk.inconcl("generator not deterministic")
                continue
            cases2 = []
            for cid, (tname, t, v, ref) in meta.items():
                if cid not in cols0:
                    continue
                ops = ["dec s=0 t=%s syn=BER in=%s" % (tname, drv.hx(ref))] + ["enc s=0 syn=%s" % s for s in SYNS] + ["free s=0"]
                for i, s in enumerate(SYNS):
                    rc, out = cols0[cid][1 + i]
                    if out in (None, "-") or rc in ("-1", None) or disabled(b.options, s):
                        ops += ["list", "list", "list"]     # placeholders keep the columns aligned
                    else:
                        ops += ["dec s=1 t=%s syn=%s in=%s" % (tname, s, out), "enc s=1 syn=DER", "free s=1"]
                cases2.append(drv.Case(cid, ops))
            res = drv.run_parallel(b.exe, cases2)
            optkey = " ".join(b.options)
            for cid, (tname, t, v, ref) in meta.items():
                if cid not in cols0:
                    continue
                r = res.get(cid)
                if r is None or r.status == "notrun":
                    chk.inconcl("case not run")
                    continue
                rt = b.mod.resolve(t)
                ev = r.events
                replay = {"module": b.text, "pdu": tname, "options": list(b.options), "ref_der": ref.hex(), "value": gen.value_repr(v, 1500)}
                if r.status in ("crash", "hang"):
                    kind, frame = drv.classify_report(r.stderr)
                    chk.evaluations += 1
                    chk.violation({"symptom": r.status, "report": kind, "frame": frame, "options": optkey, "kind": rt.kind,
                                   "fids": tb.hit(taboo.ids(b.mod, t, v, "DER"))},
                                  "%s under [%s]: %s (%s in %s) where the default build runs clean" % (tname, optkey, r.status, kind, frame),
                                  dict(replay, stderr=r.stderr[-2500:]))
                    continue
                if len(ev) < 2 + len(SYNS):
                    chk.inconcl("short event log")
                    continue
                d0 = cols0[cid][0]
                dX = (ev[0].get("rc"), None)
                if dX[0] != d0[0]:
                    chk.evaluations += 1
                    chk.seen((mseed, tname, ref, "BER", b.options))
                    chk.violation({"symptom": "decode-differs", "syntax": "BER", "options": optkey, "kind": rt.kind, "fids": tb.hit(taboo.ids(b.mod, t, v, "DER"))},
                                  "%s under [%s]: BER decode of the reference DER answers %s, default build %s; value %s" % (
                                      tname, optkey, dX[0], d0[0], gen.value_repr(v, 100)), replay)
                    continue
                if d0[0] != "OK":
                    continue
                for i, s in enumerate(SYNS):
                    if disabled(b.options, s):
                        continue
                    chk.evaluations += 1
                    chk.seen((mseed, tname, ref, s, b.options))
                    e = ev[1 + i]
                    rc0, out0 = cols0[cid][1 + i]
                    fids = tb.hit(taboo.ids(b.mod, t, v, s))
                    key = {"syntax": s, "options": optkey, "kind": rt.kind, "fids": fids}
                    ok0 = rc0 not in ("-1", None)
                    okx = e.get("rc") not in ("-1", None)
                    if ok0 != okx:
                        chk.violation(dict(key, symptom="encodes-only-with" if okx else "encodes-only-without"),
                                      "%s %s: %s encoding %s under [%s] but %s with default options; value %s" % (
                                          tname, model.type_text(t, 0)[:80].replace("\n", " "), s, "succeeds" if okx else "fails (errno %s)" % e.get("errno"),
                                          optkey, "succeeds" if ok0 else "fails", gen.value_repr(v, 100)), replay,
                                      disc={"ids": sorted(taboo.ids(b.mod, t, v, s)), "type": model.type_text(t, 0), "syntax": s})
                        continue
                    if ok0 and e.get("out") != out0:
                        chk.violation(dict(key, symptom="bytes-differ"),
                                      "%s %s: %s bytes under [%s] %s differ from the default build's %s; value %s" % (
                                          tname, model.type_text(t, 0)[:80].replace("\n", " "), s, optkey, (e.get("out") or "")[:60], (out0 or "")[:60],
                                          gen.value_repr(v, 100)), dict(replay, syntax=s, observed=e.get("out"), default=out0),
                                      disc={"ids": sorted(taboo.ids(b.mod, t, v, s)), "type": model.type_text(t, 0), "syntax": s})
                        continue
                    chk.count("same_" + s)
                    # cross decode of the default build's output
                    base_i = 2 + len(SYNS) + 3 * i
                    if base_i + 1 < len(ev) and ev[base_i].get("op") == "dec":
                        dd, ee = ev[base_i], ev[base_i + 1]
                        chk.evaluations += 1
                        src, sout = self0[cid][i]
                        if dd.get("rc") != src or (src == "OK" and ee.get("out") != sout):
                            chk.violation(dict(key, symptom="cross-decode-differs"),
                                          "%s: the default build's %s output decoded under [%s]: %s, DER %s; the default build reads it as %s, DER %s; value %s" % (
                                              tname, s, optkey, dd.get("rc"), (ee.get("out") or "-")[:50], src, (sout or "-")[:50],
                                              gen.value_repr(v, 100)), dict(replay, syntax=s, input_hex=out0),
                                          disc={"ids": sorted(taboo.ids(b.mod, t, v, s)), "type": model.type_text(t, 0), "syntax": s})
                        else:
                            chk.count("cross_ok_" + s)
                if len(chk.samples) < 6:
                    chk.sample({"pdu": tname, "type": model.type_text(t, 0)[:120], "value": gen.value_repr(v, 80), "options": list(b.options),
                                "columns": [(s, (ev[1 + i].get("out") or "")[:40]) for i, s in enumerate(SYNS)]})
        import shutil
        shutil.rmtree(root, ignore_errors=True)
        os.makedirs(root, exist_ok=True)
    return chk.finish()
