"""C07 -- encoder API contract: exact size accounting, bounded writes, clean
failure (callback failure -> -1/EIO; unencodable structure -> -1 with errno)."""
import os, random
from .. import build, core, drv, harness, taboo
from ..asn import gen, model, der
from .c04 import static_flags

ENCS = ["DER", "OER", "UPER", "BXER", "CXER"]
DEC_OF = {"DER": "BER", "OER": "OER", "UPER": "UPER", "BXER": "BXER", "CXER": "CXER"}
XFS = ["unselect", "badpresent", "nullptr", "emptyint", "badunused", "oddwide", "nullbuf"]


def out_of_range_values(g, mod, t, n):
    """values violating a constraint at one position (entered by BER, which does not validate)"""
    from ..asn import constraints as C
    out = []
    rt = mod.resolve(t)
    if rt.kind == "INTEGER":
        specs = C.chain(mod, t, "value_c")
        if specs:
            root, ext = C.general_set(specs)
            for cand in (root.lb() - 1 if root.lb() is not None else None, root.ub() + 1 if root.ub() is not None else None):
                if cand is not None and -(1 << 63) <= cand < (1 << 63):
                    out.append(cand)
    elif rt.kind in ("OCTET STRING", "IA5String", "VisibleString", "PrintableString", "NumericString", "UTF8String"):
        specs = C.chain(mod, t, "size_c")
        if specs:
            root, ext = C.general_set(specs, C.IntSet([(0, None)]))
            fill = b"A" if rt.kind == "OCTET STRING" else "1"
            if root.lb():
                out.append(fill * (root.lb() - 1))
            if root.ub() is not None and root.ub() < 300:
                out.append(fill * (root.ub() + 1))
        if rt.kind in ("PrintableString", "NumericString"):
            out.append("*#")       # outside the built-in alphabet
    elif rt.kind == "ENUMERATED":
        vals = set(v for n_, v in rt.items + (rt.ext_items or []))
        out.append(max(vals) + 1000)
    return out[:n]


def run(tier, seed):
    chk = core.Check("C07", tier, seed, level="fault_enumeration")
    quick = tier == "quick"
    rng = random.Random(seed)
    chk.rule = ("(type, structure, encoder) over generated modules: valid values, constraint-violating values (entered by BER) and structures damaged by "
                "the walker (unselected CHOICE, NULL mandatory pointer, empty INTEGER, bits_unused 9, odd-length wide string, NULL buffer); per case: counting "
                "callback (encoded == bytes delivered), callback failure injected at every invocation index (capped), asn_encode_to_buffer with exact-size "
                "heap buffers of every size 0..n and n+1, n+7 (ASan red zones), asn_encode_to_new_buffer (+OOM on it); oracle: rc/errno/bytes invariants, "
                "no crash/abort/hang, success on an invalid structure must decode back equal; distinct = distinct (type, structure, encoder, fault)")
    chk.assumptions = ["DER/XER may legitimately encode constraint-violating values; then only 'output decodes back to an equal value' is demanded"]
    tc = build.toolchain()
    tb = taboo.Taboo("C01")     # encoders that cannot handle a construct at all are C01 findings; avoid them here
    nmod = int(os.environ.get("VERIF_NMOD", 3 if quick else 20))
    prof = gen.profile(max_len=10)
    builds = harness.make_many(tc, [seed * 1000 + 700 + i for i in range(nmod)], prof, atoms=10, composites=9)
    from ..asn import shapes
    builds.append(harness.make(tc, seed * 1000 + 797, prof, module_fn=lambda g: shapes.build3("SZ")))
    builds.append(harness.make(tc, seed * 1000 + 798, prof, module_fn=lambda g: shapes.build2("SH2")))
    # INTEGER_t everywhere: values far beyond intmax_t take the long XER path
    builds.append(harness.make(tc, seed * 1000 + 796, prof, module_fn=lambda g: shapes.build3("SZ"), options=("-fwide-types",)))
    for b in builds:
        if b.exe is None:
            chk.inconcl("module not built (%s)" % b.error[0])
            continue
        enc = der.Encoder(b.mod)
        # ---- stage 1: clean runs to learn n and callback counts
        structs = []     # (tname, desc, setup ops, valid, value)
        if b.mod.name in ("SZ", "SH2"):
            for tname, t in b.mod.types.items():
                vv = shapes.values3(b.mod, tname, quick) if b.mod.name == "SZ" else [(v, True) for v in shapes.values2(b.mod, tname, rng, quick)]
                for v, ok in vv:
                    try:
                        ref = enc.encode(t, v)
                    except Exception:
                        continue
                    dec = "dec s=0 t=%s syn=BER in=%s" % (tname, drv.hx(ref))
                    structs.append((tname, "valid" if ok else "constraint-violating", [dec], ok, v if ok else None))
                    if ok and tname == "Pair":
                        # a mandatory member that asn1c holds by pointer (the types are mutually recursive) is taken away:
                        # no encoder may produce anything from such a structure
                        for nm in ("left", "right"):
                            structs.append((tname, "mandatory-absent:" + nm, [dec, "xf s=0 kind=nullnamed name=%s limit=1" % nm], False, None))
                    if ok and b.mod.name == "SH2":
                        # the same value with its DEFAULT components stored explicitly
                        structs.append((tname, "valid:defaults-stored", [dec, "xf s=0 kind=default limit=8 seed=1"], True, v))
        for tname, t in ([] if b.mod.name in ("SZ", "SH2") else b.mod.types.items()):
            for v in b.gen.values(t, 2 if quick else 4):
                ref = harness.ref_der(b, t, v)
                if ref is not None:
                    structs.append((tname, "valid", ["dec s=0 t=%s syn=BER in=%s" % (tname, drv.hx(ref))], True, v))
            for v in out_of_range_values(b.gen, b.mod, t, 2):
                try:
                    ref = enc.encode(t, v)
                except Exception:
                    continue
                structs.append((tname, "constraint-violating", ["dec s=0 t=%s syn=BER in=%s" % (tname, drv.hx(ref))], False, None))
            vals = b.gen.values(t, 1)
            if vals:
                ref = harness.ref_der(b, t, vals[0])
                if ref is not None:
                    for xf in (XFS if not quick else rng.sample(XFS, 3)):
                        structs.append((tname, "damaged:" + xf, ["dec s=0 t=%s syn=BER in=%s" % (tname, drv.hx(ref)),
                                                                   "xf s=0 kind=%s limit=1 seed=%d" % (xf, rng.randrange(1000))], False, None))
        cases, meta = [], {}
        cid = 0
        for tname, desc, setup, valid, v in structs:
            cid += 1
            cases.append(drv.Case(cid, setup + ["enc s=0 syn=%s" % s for s in ENCS]))
            meta[cid] = (tname, desc, setup, valid, v)
        res = drv.run_parallel(b.exe, cases)
        plan = []
        for cid, (tname, desc, setup, valid, v) in meta.items():
            r = res.get(cid)
            t = b.mod.types[tname]
            flags = static_flags(b.mod, t)
            chk.evaluations += 1
            if r is None or r.status == "notrun":
                continue
            replay = {"module": b.text, "pdu": tname, "structure": desc, "script": casemap_ops(setup)}
            if r.status in ("crash", "hang"):
                kind, frame = drv.classify_report(r.stderr)
                nans = len(r.events)
                es = ENCS[nans - len(setup)] if 0 <= nans - len(setup) < len(ENCS) else "?"
                chk.violation({"symptom": r.status, "report": kind, "frame": frame, "structure": desc.split(":")[0], "xf": desc.split(":")[-1],
                               "syntax": es, "has_set": flags["has_set"]},
                              "asn_encode(%s) of a %s structure of %s: %s (%s in %s)" % (es, desc, tname, r.status, kind, frame),
                              dict(replay, stderr=r.stderr[-2500:]))
                continue
            ev = r.events
            if ev[0].get("rc") != "OK":
                continue
            if desc.startswith("damaged") and ev[1].get("count") == "0":
                continue    # the transformation found no site in this value
            encs = ev[len(setup):]
            for s, e in zip(ENCS, encs):
                rc = int(e.get("rc", -1))
                chk.seen((b.seed, tname, desc, s, "count"))
                fids = tb.hit(taboo.ids(b.mod, t, v, s)) if v is not None else []
                if fids and valid:
                    continue
                key = {"syntax": s, "structure": desc.split(":")[0], "xf": desc.split(":")[-1], "has_set": flags["has_set"], "kind": b.mod.resolve(t).kind}
                if desc.startswith("mandatory-absent"):
                    chk.evaluations += 1
                    if ev[1].get("count") != "1":
                        chk.inconcl("mandatory pointer member not found by the walker")
                        break
                    if rc >= 0:
                        chk.violation(dict(key, symptom="mandatory-member-absent-encoded"),
                                      "asn_encode(%s) of %s with its mandatory member '%s' absent (NULL pointer) succeeded and returned %d" % (
                                          s, tname, desc.split(":")[-1], rc), replay)
                    else:
                        chk.count("mandatory_absent_refused_" + s)
                    continue
                if rc >= 0:
                    if int(e["bytes"]) != rc:
                        chk.violation(dict(key, symptom="encoded-ne-bytes-delivered"),
                                      "asn_encode(%s) of %s (%s) returned %d but delivered %s bytes to the callback" % (s, tname, desc, rc, e["bytes"]), replay)
                    plan.append((tname, desc, setup, s, rc, int(e["calls"]), e.get("out"), valid))
                else:
                    if e.get("errno") == "0":
                        chk.violation(dict(key, symptom="failure-without-errno"),
                                      "asn_encode(%s) of %s (%s) returned -1 with errno 0" % (s, tname, desc), replay)
                    if valid and not flags["has_set"]:
                        chk.count("valid_value_not_encodable_%s" % s)
                    plan.append((tname, desc, setup, s, -1, int(e["calls"]), None, valid))
        # ---- stage 2: fault enumeration
        cases, meta = [], {}
        cid = 0
        for tname, desc, setup, s, n, ncalls, out, valid in plan:
            ops = list(setup)
            checks = []
            if n >= 0:
                idx = list(range(ncalls)) if ncalls <= 48 else list(range(24)) + list(range(ncalls - 24, ncalls))
                for i in idx:
                    ops.append("enc s=0 syn=%s cbfail=%d quiet=1" % (s, i))
                    checks.append(("cbfail", i))
                sizes = list(range(0, n + 1)) if n <= 64 else sorted(set([0, 1, 2, n - 2, n - 1, n] + [rng.randrange(n) for _ in range(24)]))
                for z in sizes + [n + 1, n + 7]:
                    ops.append("enc s=0 syn=%s buf=%d" % (s, z))
                    checks.append(("buf", z))
                if s in ("DER", "OER", "UPER"):
                    # the per-syntax entry points der_/oer_/uper_encode_to_buffer write through the same kind of bounded callback
                    for z in sorted(set([0, 1, max(0, n - 1), n, n + 1, n + 7] + ([rng.randrange(n)] if n > 2 else []))):
                        ops.append("enc s=0 syn=%s buf=%d legacy=1" % (s, z))
                        checks.append(("lbuf", z))
                if s == "UPER":
                    ops.append("enc s=0 syn=UPER lnew=1")
                    checks.append(("lnew", 0))
                    for k in (1, 2, 3):
                        ops += ["oom k=%d" % k, "enc s=0 syn=UPER lnew=1"]
                        checks.append(("lnew-oom", k))
                if not valid and desc == "constraint-violating":
                    # walker-damaged structures have no defined abstract value: only safety and rc/errno discipline are demanded
                    ops += ["setreg r=1 in=%s" % out, "dec s=1 t=%s syn=%s inreg=1" % (tname, DEC_OF[s]), "enc s=1 syn=%s" % s, "free s=1"]
                    checks += [("setreg", 0), ("backdec", 0), ("backenc", 0), ("free", 0)]
            else:
                ops.append("enc s=0 syn=%s buf=64" % s)
                checks.append(("buf-fail", 64))
            ops.append("enc s=0 syn=%s newbuf=1" % s)
            checks.append(("newbuf", 0))
            for k in (1, 2, 3):
                ops += ["oom k=%d" % k, "enc s=0 syn=%s newbuf=1" % s]
                checks.append(("newbuf-oom", k))
            cid += 1
            cases.append(drv.Case(cid, ops))
            meta[cid] = (tname, desc, setup, s, n, out, valid, checks)
        res = drv.run_parallel(b.exe, cases)
        for cid, (tname, desc, setup, s, n, out, valid, checks) in meta.items():
            r = res.get(cid)
            t = b.mod.types[tname]
            flags = static_flags(b.mod, t)
            if r is None or r.status == "notrun":
                chk.inconcl("case not run")
                continue
            key = {"syntax": s, "structure": desc.split(":")[0], "xf": desc.split(":")[-1], "has_set": flags["has_set"], "kind": b.mod.resolve(t).kind}
            replay = {"module": b.text, "pdu": tname, "structure": desc, "syntax": s}
            ev = r.events[len(setup):]
            if r.status in ("crash", "hang"):
                kind, frame = drv.classify_report(r.stderr)
                which = checks[len(ev)] if len(ev) < len(checks) else ("?", 0)
                chk.evaluations += 1
                chk.violation(dict(key, symptom=r.status, report=kind, frame=frame, fault=which[0]),
                              "asn_encode*(%s) of %s (%s) under %s=%s: %s (%s in %s)" % (s, tname, desc, which[0], which[1], r.status, kind, frame),
                              dict(replay, stderr=r.stderr[-2500:]))
                continue
            for (what, arg), e in zip(checks, ev):
                chk.evaluations += 1
                chk.seen((b.seed, tname, desc, s, what, arg))
                rc = int(e.get("rc", -9)) if "rc" in e and e.get("rc", "").lstrip("-").isdigit() else None
                if what == "cbfail":
                    if e.get("cbfailed") == "1" and (rc != -1 or e.get("errno") != "5"):
                        chk.violation(dict(key, symptom="callback-failure-not-minus1-EIO"),
                                      "asn_encode(%s) of %s with the callback failing at invocation %d returned rc=%s errno=%s" % (s, tname, arg, rc, e.get("errno")), replay)
                    if int(e.get("dlive", 0) or 0) != 0:
                        chk.violation(dict(key, symptom="encoder-leaves-allocation"),
                                      "asn_encode(%s) of %s with failing callback (%d) returned holding %s allocations" % (s, tname, arg, e.get("dlive")), replay)
                elif what == "buf":
                    if rc != n:
                        chk.violation(dict(key, symptom="to_buffer-size-depends-on-buffer"),
                                      "asn_encode_to_buffer(%s) of %s with a %d-byte buffer returned %s, full size is %d" % (s, tname, arg, rc, n), replay)
                    elif arg >= n and e.get("out") != out:
                        chk.violation(dict(key, symptom="to_buffer-content-differs"),
                                      "asn_encode_to_buffer(%s) of %s with a %d-byte buffer produced different bytes than the callback encoder" % (s, tname, arg), replay)
                elif what == "lbuf":
                    # judged: no write beyond the buffer (ASan, exact-size heap block); a success has the size and the bytes of
                    # the callback encoder (uper_encode_to_buffer counts bits and writes nothing for a zero-bit value)
                    nb = int(e.get("nbytes", -1))
                    if rc is not None and rc >= 0 and not (s == "UPER" and rc == 0):
                        if nb != n or nb > arg or e.get("out") != out:
                            chk.violation(dict(key, symptom="legacy-to_buffer-success-differs"),
                                          "%s_encode_to_buffer of %s with a %d-byte buffer returned %s (%d bytes) where the callback encoder gives %d bytes%s" % (
                                              s.lower(), tname, arg, rc, nb, n, "" if e.get("out") == out else ", other content"), replay)
                    elif rc is not None and rc < 0 and arg >= n and valid:
                        chk.violation(dict(key, symptom="legacy-to_buffer-fails-with-room"),
                                      "%s_encode_to_buffer of %s fails (rc=%s errno=%s) with a %d-byte buffer, the encoding has %d bytes" % (
                                          s.lower(), tname, rc, e.get("errno"), arg, n), replay)
                elif what in ("lnew", "lnew-oom"):
                    fired = what == "lnew-oom" and e.get("oomfired") == "1"
                    if rc is not None and rc >= 0:
                        if rc != n or e.get("out") != out or e.get("bufnull") == "1":
                            chk.violation(dict(key, symptom="legacy-new_buffer-wrong"),
                                          "uper_encode_to_new_buffer of %s returned %s (callback encoder: %d bytes)%s" % (
                                              tname, rc, n, "" if e.get("out") == out else ", other content"), replay)
                    elif not fired and valid:
                        chk.violation(dict(key, symptom="legacy-new_buffer-fails"),
                                      "uper_encode_to_new_buffer of %s fails (rc=%s errno=%s) where uper encoding succeeds" % (tname, rc, e.get("errno")), replay)
                    if int(e.get("dlive", 0) or 0) != (1 if rc is not None and rc >= 0 else 0):
                        chk.violation(dict(key, symptom="legacy-new_buffer-allocation-accounting"),
                                      "uper_encode_to_new_buffer of %s (rc=%s%s) returned with %s allocation(s) outstanding" % (
                                          tname, rc, ", allocation %d failing" % arg if fired else "", e.get("dlive")), replay)
                elif what == "newbuf":
                    if rc is not None and rc >= 0:
                        if e.get("bufnull") == "1" or e.get("out") != out or e.get("nul") != "1":
                            chk.violation(dict(key, symptom="new_buffer-wrong"),
                                          "asn_encode_to_new_buffer(%s) of %s: rc=%s bufnull=%s (content/terminator mismatch)" % (s, tname, rc, e.get("bufnull")), replay)
                    else:
                        if e.get("bufnull") != "1":
                            chk.violation(dict(key, symptom="new_buffer-nonnull-on-failure"),
                                          "asn_encode_to_new_buffer(%s) of %s (%s) failed (encoded=%s) but returned a non-NULL buffer" % (s, tname, desc, rc), replay)
                        if rc == -1 and e.get("errno") == "0":
                            chk.violation(dict(key, symptom="failure-without-errno"), "asn_encode_to_new_buffer(%s) -1 with errno 0 (%s)" % (s, tname), replay)
                elif what == "newbuf-oom":
                    ok = (rc is not None and rc >= 0 and e.get("bufnull") == "0" and e.get("out") == out) or \
                         (e.get("bufnull") == "1") or (e.get("oomfired") == "0")
                    if not ok and n >= 0:
                        chk.violation(dict(key, symptom="new_buffer-under-oom"),
                                      "asn_encode_to_new_buffer(%s) of %s with the %d-th allocation failing: rc=%s bufnull=%s" % (s, tname, arg, rc, e.get("bufnull")), replay)
                elif what == "backdec":
                    if e.get("rc") != "OK":
                        chk.violation(dict(key, symptom="success-with-undecodable-output"),
                                      "asn_encode(%s) succeeded on a %s structure of %s but the output does not decode (%s)" % (s, desc, tname, e.get("rc")), replay)
                elif what == "backenc":
                    if e.get("out") != out and e.get("error") is None:
                        chk.violation(dict(key, symptom="success-with-different-value"),
                                      "asn_encode(%s) succeeded on a %s structure of %s but the output decodes to a different value" % (s, desc, tname), replay)
            if int(r.end.get("live", 0) or 0):
                chk.violation(dict(key, symptom="leak"), "%s allocations live at the end of the %s/%s encoder case of %s" % (r.end.get("live"), desc, s, tname), replay)
            if len(chk.samples) < 6:
                chk.sample({"pdu": tname, "structure": desc, "encoder": s, "size": n, "faults": len(checks)})
    return chk.finish()


def casemap_ops(setup):
    return list(setup)
