"""C04 -- decoding arbitrary bytes is memory-safe, terminates, reports
consistently, and leaves a structure that can be printed, validated,
re-encoded and freed."""
import os, random, re
from .. import build, core, drv, harness
from ..asn import gen, model

DEC_SYNS = ["BER", "OER", "UPER", "BXER"]
ENC_SYNS = ["DER", "OER", "UPER", "CXER", "BXER"]
INTERESTING = [b"\x00", b"\x01", b"\x7f", b"\x80", b"\x81", b"\xff", b"\x81\xff", b"\x82\xff\xff", b"\x84\x7f\xff\xff\xff",
               b"\x84\xff\xff\xff\xff", b"\x88\x7f\xff\xff\xff\xff\xff\xff\xff", b"\x88" + b"\xff" * 8, b"\x89" + b"\x01" * 9,
               b"\x1f", b"\x3f", b"\xbf\xff\xff\xff\x7f", b"\x30\x80", b"\x24\x80", b"\x23\x80", b"\x00\x00", b"\xc0",
               b"\xc4", b"<", b">", b"</", b"/>", b"&", b"&#x", b"&#", b";", b"<!--", b"-->", b"<a>", b"\"", b" "]


def mutate(rng, x, pool, n):
    out = [("identity", x)]        # the seed itself: foreign but valid forms (decimal REALs, unknown additions ...) as they are
    L = len(x)
    # truncations: every offset for short inputs, sampled for long ones
    offs = list(range(0, L)) if L <= 48 else sorted(set([0, 1, 2, L - 1, L - 2] + [rng.randrange(L) for _ in range(24)]))
    for o in offs:
        out.append(("trunc", x[:o]))
    # every single-bit flip in the first three octets (extension bit, bitmaps, length determinants, preambles)
    for bit in range(min(24, 8 * L)):
        b = bytearray(x)
        b[bit // 8] ^= 0x80 >> (bit % 8)
        out.append(("headflip", bytes(b)))
        if L > bit // 8 + 2:
            out.append(("headflip+trunc", bytes(b[: rng.randrange(bit // 8 + 1, L)])))
    for _ in range(n):
        m = rng.choice(["flip", "flip", "set", "interesting", "interesting", "splice", "insert", "delete", "dup",
                        "count", "random", "extend"])
        b = bytearray(x)
        if m == "flip" and L:
            for _ in range(rng.choice([1, 1, 1, 2, 4])):
                b[rng.randrange(L)] ^= 1 << rng.randrange(8)
        elif m == "set" and L:
            b[rng.randrange(L)] = rng.choice([0, 1, 0x7f, 0x80, 0xff, rng.getrandbits(8)])
        elif m == "interesting" and L:
            p = rng.randrange(L)
            ins = rng.choice(INTERESTING)
            if rng.random() < 0.5:
                b[p:p + 1] = ins
            else:
                b[p:p + len(ins)] = ins
        elif m == "splice" and pool:
            y = rng.choice(pool)
            b = b[:rng.randrange(L + 1)] + y[rng.randrange(len(y) + 1):]
        elif m == "insert":
            p = rng.randrange(L + 1)
            b[p:p] = rng.choice(INTERESTING) if rng.random() < 0.6 else bytes(rng.getrandbits(8) for _ in range(rng.randrange(1, 9)))
        elif m == "delete" and L > 1:
            p = rng.randrange(L)
            del b[p:p + rng.randrange(1, 4)]
        elif m == "dup" and L:
            p = rng.randrange(L)
            q = min(L, p + rng.randrange(1, 16))
            b[p:p] = b[p:q] * rng.choice([1, 2, 50])
        elif m == "count" and L:
            # element count / length octet edits near the front
            p = rng.randrange(min(L, 6))
            b[p] = rng.choice([0, 1, 2, 0x7f, 0x80, 0x81, 0xc1, 0xc4, 0xff, (b[p] + 1) & 0xff, (b[p] - 1) & 0xff])
        elif m == "random":
            b = bytearray(rng.getrandbits(8) for _ in range(rng.randrange(0, 40)))
        else:
            b += bytes(rng.getrandbits(8) for _ in range(rng.randrange(1, 12)))
        out.append((m, bytes(b)))
    return out


def static_flags(mod, t):
    """static type features used by known-finding matching"""
    has_set = [False]
    seen = set()

    def visit(t):
        rt = mod.resolve(t)
        if id(rt) in seen:
            return
        seen.add(id(rt))
        if rt.kind == "SET":
            has_set[0] = True
        if rt.kind in ("SEQUENCE", "SET", "CHOICE"):
            for c in rt.all_comps():
                visit(c.type)
        elif rt.kind in ("SEQUENCE OF", "SET OF"):
            visit(rt.elem)
    visit(t)
    return {"has_set": has_set[0]}


def judge_results(chk, b, cases, meta, res, info):
    for cid, (tname, syn, mk, mb) in meta.items():
        r = res.get(cid)
        if r is None or r.status == "notrun":
            chk.inconcl("case not run")
            continue
        chk.evaluations += 1
        chk.seen((b.seed, tname, syn, mb))
        flags, tkind, ttext = info(tname)
        replay = {"module": b.text, "pdu": tname, "syntax": syn, "mutation": mk, "input_hex": mb.hex()}
        if r.status in ("crash", "hang"):
            kind, frame = drv.classify_report(r.stderr)
            nans = len(r.events)
            ops = [c for c in cases if c.cid == cid][0].ops
            dying = ops[nans] if nans < len(ops) else "?"
            m_ = re.search(r"^(\w+).*?syn=(\w+)", dying)
            dop = (m_.group(1) + ":" + m_.group(2)) if m_ else dying.split(" ")[0]
            if r.confirmed is False:
                chk.inconcl("crash not reproduced on re-run")
                continue
            chk.violation({"symptom": r.status, "report": kind, "frame": frame, "dying_op": dop, "has_set": flags["has_set"]},
                          "%s in %s (%s) while '%s' after decoding %s mutant (%s) of %s" % (
                              r.status, frame, kind, dop, syn, mk, tname),
                          dict(replay, stderr=r.stderr[-3000:], script=ops))
            continue
        d = r.events[0]
        if d.get("error"):
            chk.inconcl("driver: " + d["error"])
            continue
        if d.get("rc") not in ("OK", "WMORE", "FAIL"):
            chk.violation({"symptom": "illegal-rc", "syntax": syn}, "decoder returned code %s for %s" % (d.get("rc"), tname), replay)
        elif int(d["consumed"]) > int(d["size"]):
            chk.violation({"symptom": "consumed-gt-size", "syntax": syn},
                          "%s decoder reported consumed=%s for %s input bytes (%s)" % (syn, d["consumed"], d["size"], tname),
                          replay)
        chk.count("rc_" + d.get("rc", "?"))
        encleak = False
        for ei, e in enumerate(r.events[1:]):
            if e["op"] == "enc" and e.get("mode") == "cb" and int(e.get("dlive", 0) or 0) != 0:
                encleak = True
                esyn = ENC_SYNS[ei - 2] if 2 <= ei < 2 + len(ENC_SYNS) else "DER"
                chk.violation({"symptom": "encoder-leaves-allocation", "enc_ok": int(e.get("rc", -1)) >= 0,
                               "enc_syntax": esyn, "kind": tkind},
                              "asn_encode(%s) (rc=%s errno=%s, failed type %s) returned with %s allocation(s) still held, on the structure "
                              "decoded from a %s mutant of %s" % (esyn, e.get("rc"), e.get("errno"), e.get("failtype"), e.get("dlive"), syn, tname),
                              dict(replay, events=r.events))
                break
        if int(r.end.get("live", 0) or 0) != 0 and not encleak:
            chk.violation({"symptom": "leak", "syntax": syn, "rc": d.get("rc"), "has_set": flags["has_set"]},
                          "%s allocation(s) (%s bytes; sizes %s) still live after ASN_STRUCT_FREE following a %s decode (%s) of a %s mutant of %s" % (
                              r.end.get("live"), r.end.get("livebytes"), r.end.get("sizes"), syn, d.get("rc"), mk, tname),
                          dict(replay, events=r.events))
        if len(chk.samples) < 5 and mk not in ("trunc",):
            chk.sample({"pdu": tname, "type": ttext[:160], "syntax": syn, "mutation": mk,
                        "input_hex": mb.hex()[:120], "decode": d.get("rc"), "consumed": d.get("consumed")})


def real_round(chk, tc, rng, quick, nmut):
    """the shipped real-world specifications and their shipped sample PDUs as mutation seeds (see vf/realpdu.py)"""
    from .. import realpdu
    nm = realpdu.names(quick)
    blds = realpdu.make_many(tc, nm)
    for spec, pdu, syn, label, data in realpdu.samples(tc, nm):
        b = blds[spec]
        if b.exe is None:
            chk.inconcl("shipped specification %s not built (%s)" % (spec, b.error[0]))
            continue
        # the sample and the library's own encodings of it in the other syntaxes
        r0 = drv.run_cases(b.exe, [drv.Case(1, ["dec s=0 t=%s syn=%s in=%s" % (pdu, syn, drv.hx(data))] +
                                              ["enc s=0 syn=%s" % s for s in ("DER", "OER", "UPER", "BXER")] + ["free s=0"])], confirm=False).get(1)
        corpus = {syn: [data]}
        if r0 is not None and r0.status == "ok" and len(r0.events) >= 5 and r0.events[0].get("rc") == "OK":
            chk.count("real_samples_decoded")
            for s2, e in zip(("BER", "OER", "UPER", "BXER"), r0.events[1:5]):
                if int(e.get("rc", -1)) >= 0 and e.get("out") not in (None, "trunc", "q") and s2 != syn:
                    corpus.setdefault(s2, []).append(drv.unhex(e["out"]))
        else:
            chk.inconcl("shipped sample %s not decoded (C03)" % label)
        cases, meta = [], {}
        cid = 0
        pool = [x for xs in corpus.values() for x in xs]
        for s2, xs in corpus.items():
            for x in xs:
                muts = mutate(rng, x, pool, nmut * 4)
                if quick and len(muts) > 120:
                    muts = rng.sample(muts, 120)
                for mk, mb in muts:
                    cid += 1
                    ops = ["dec s=0 t=%s syn=%s in=%s" % (pdu, s2, drv.hx(mb)), "prt s=0", "chk s=0 eb=64"] + \
                          ["enc s=0 syn=%s quiet=1" % s for s in ENC_SYNS] + ["free s=0"]
                    cases.append(drv.Case(cid, ops))
                    meta[cid] = (pdu, s2, mk, mb)
        res = drv.run_parallel(b.exe, cases, per_case_timeout=60)
        chk.count("real_sample_mutants", len(cases))
        judge_results(chk, b, cases, meta, res, lambda tname, b=b: ({"has_set": b.has_set}, "real", "shipped " + b.name + " " + tname))


def run(tier, seed):
    chk = core.Check("C04", tier, seed)
    quick = tier == "quick"
    rng = random.Random(seed)
    chk.rule = ("valid encodings (reference DER and the library's own OER/UPER/XER output) of generated modules incl. recursive "
                "types are mutated structure-aware (truncation at every offset, bit flips, length/count edits, splices, markup "
                "fragments, random bytes); each mutant is decoded (ASan+UBSan+ledger, watchdog), then the returned structure is "
                "printed, constraint-checked, re-encoded in five syntaxes and freed; judged: rc in {OK,WMORE,FAIL}, "
                "consumed <= size, no sanitizer report, no hang, nothing live after free; distinct = distinct (type, syntax, bytes)")
    chk.assumptions = ["UBSan/ASan see only what executes; red zones do not catch intra-object overflows"]
    tc = build.toolchain()
    nmod = int(os.environ.get("VERIF_NMOD", 4 if quick else 30))
    nmut = 10 if quick else 40
    prof = gen.profile(max_len=12)
    builds = harness.make_many(tc, [seed * 1000 + 77 + i for i in range(nmod)], prof, atoms=10, composites=10)
    from ..asn import shapes
    builds.append(harness.make(tc, seed * 1000 + 98, prof, module_fn=lambda g: shapes.build2("SH2")))
    for b in builds:
        if b.exe is None:
            chk.inconcl("module not built (%s)" % b.error[0])
            continue
        # ---- stage 1: corpus
        values_by_cid = {}
        cases, meta = [], {}
        cid = 0
        for tname, t in b.mod.types.items():
            for v in (shapes.values2(b.mod, tname, rng, quick) if b.mod.name == "SH2" else b.gen.values(t, 2 if quick else 4)):
                ref = harness.ref_der(b, t, v)
                if ref is None:
                    continue
                cid += 1
                ops = ["dec s=0 t=%s syn=BER in=%s" % (tname, drv.hx(ref))] + ["enc s=0 syn=%s" % s for s in ("OER", "UPER", "BXER")]
                cases.append(drv.Case(cid, ops))
                meta[cid] = (tname, t, ref)
                values_by_cid[cid] = v
        res = drv.run_parallel(b.exe, cases, confirm=False)
        corpus = {}     # (tname, syn) -> list of bytes
        unkseeds = set()
        from . import variants
        from ..asn import der as _der
        enc_ = _der.Encoder(b.mod)
        for cid, (tname, t, ref) in meta.items():
            r = res.get(cid)
            corpus.setdefault((tname, "BER"), []).append(ref)
            # foreign but valid BER forms of the same value (indefinite lengths, constructed strings, unknown
            # extension additions ...) as further mutation seeds: they reach the skipping / reassembly code
            try:
                v_ = values_by_cid[cid]
                tree = enc_.tree(t, v_)
                for fam, vb in (variants.ber_variants(rng, tree, 1) + variants.ber_semantic_variants(rng, b.mod, t, v_, enc_, 2))[:4]:
                    corpus[(tname, "BER")].append(vb)
            except Exception:
                pass
            # unknown extension additions in constructed, indefinite-length form with nested TLVs: the BER skipping code
            # (ber_skip_length); kept short so that every truncation point is tried
            try:
                class _Always:
                    def __init__(self, r): self.r = r
                    def random(self): return 0.0
                    def choice(self, x): return self.r.choice(x)
                    def randrange(self, *a): return self.r.randrange(*a)
                    def getrandbits(self, n): return self.r.getrandbits(n)
                    def sample(self, a, k): return self.r.sample(a, k)
                    def shuffle(self, a): return self.r.shuffle(a)
                e2 = _der.Encoder(b.mod, unknown_ext=_Always(rng))
                tr2 = e2.tree(t, values_by_cid[cid])
                if "unknown-ext" in e2.used:
                    for mode in ("unk", "all"):
                        xb2 = _der.serialize(tr2, lambda nd, d, mode=mode: {"indef": nd.constructed and (mode == "all" or getattr(nd, "unknown_ext", False))})
                        if len(xb2) <= 420:
                            corpus.setdefault((tname, "BER"), []).append(xb2)
                            unkseeds.add(xb2)
            except Exception:
                pass
            # the value as a peer with a later version of the type sends it (unknown extension additions): seeds that reach
            # the extension-skipping code of the PER and OER decoders
            try:
                from . import refenc
                for syn_, fam_, xb_ in refenc.reference_encodings(b.mod, t, values_by_cid[cid], rng, 2):
                    if fam_ == "v2-sender":
                        corpus.setdefault((tname, syn_), []).append(xb_)
            except Exception:
                pass
            if r is None or r.status != "ok" or len(r.events) < 4:
                continue
            for s, e in zip(("OER", "UPER", "BXER"), r.events[1:4]):
                if e.get("rc", "-1") not in ("-1",) and e.get("out") not in (None, "trunc", "q"):
                    corpus.setdefault((tname, s), []).append(drv.unhex(e["out"]))
        # ---- stage 2: mutants
        cases, meta = [], {}
        cid = 0
        pool = [x for xs in corpus.values() for x in xs]
        for (tname, syn), xs in corpus.items():
            t = b.mod.types[tname]
            sel = (xs[:2] + xs[-3:] if quick else xs[:12])
            sel += [x for x in xs if x in unkseeds and x not in sel][: 2 if quick else 6]
            for x in sel:
                muts = mutate(rng, x, pool, nmut)
                if x in unkseeds:
                    # every truncation point, and each of them with the last length octet before it raised by 1..3
                    muts = [("trunc", x[:o]) for o in range(len(x))] + [m for m in muts if m[0] != "trunc"][:20]
                elif quick and len(muts) > 60:
                    muts = rng.sample(muts, 60)
                for mk, mb in muts:
                    cid += 1
                    ops = ["dec s=0 t=%s syn=%s in=%s" % (tname, syn, drv.hx(mb)), "prt s=0", "chk s=0 eb=64"] + \
                          ["enc s=0 syn=%s quiet=1" % s for s in ENC_SYNS] + ["free s=0"]
                    cases.append(drv.Case(cid, ops))
                    meta[cid] = (tname, syn, mk, mb)
            # every decoder on every type, incl. syntaxes for which the type has no codec
            for s2 in DEC_SYNS + ["CXER", "CER", "TEXT"]:
                if s2 != syn:
                    cid += 1
                    cases.append(drv.Case(cid, ["dec s=0 t=%s syn=%s in=%s" % (tname, s2, drv.hx(xs[0])), "prt s=0",
                                                "enc s=0 syn=DER quiet=1", "free s=0"]))
                    meta[cid] = (tname, s2, "cross:" + syn, xs[0])
        res = drv.run_parallel(b.exe, cases, per_case_timeout=60)
        judge_results(chk, b, cases, meta, res,
                      lambda tname, b=b: (static_flags(b.mod, b.mod.types[tname]), b.mod.resolve(b.mod.types[tname]).kind,
                                          model.type_text(b.mod.types[tname], 0)))
    real_round(chk, tc, rng, quick, nmut)
    return chk.finish()
