"""BER variant families of a reference TLV tree (all valid per X.690 8)."""
from ..asn import der


def _nodes(tree, out, depth=0):
    out.append((tree, depth))
    if tree.constructed:
        for ch in tree.children:
            _nodes(ch, out, depth + 1)


def ber_variants(rng, tree, n):
    """-> list of (family, bytes); family names exactly the BER liberties used:
    'indef' (some indefinite length), 'cstr' (some constructed string), 'longlen' (non-minimal length octets)"""
    nodes = []
    _nodes(tree, nodes)
    cons = [nd for nd, d in nodes if nd.constructed]
    strs = [nd for nd, d in nodes if nd.is_string and not nd.constructed]
    wrapped = set(id(nd.children[0]) for nd, d in nodes if nd.wrapper and nd.children)
    out = []

    def is_plain(nd):
        return nd.cls == "U" and id(nd) not in wrapped and \
            ((nd.num == 4 and nd.kind == "OCTET STRING") or (nd.num == 3 and nd.kind == "BIT STRING"))

    def emit(use_indef, use_long, use_cstr):
        used = set()
        # most variants stay clear of the two listed BER findings (tagged constructed strings, mixed
        # length forms across an EXPLICIT wrapper); a minority targets them
        clean = rng.random() < 0.85
        sub = set(id(c) for c in cons if rng.random() < 0.5) or ({id(cons[0])} if cons else set())
        if use_indef == "all":
            sub = set(id(c) for c in cons)
        zs = {id(nd): rng.choice([0, 0, 1, 2, 4]) for nd, d in nodes}
        pick = set(id(s_) for s_ in strs if rng.random() < 0.6) or ({id(strs[0])} if strs else set())
        if clean:
            pick = set(id(s_) for s_ in strs if id(s_) in pick and is_plain(s_))
            # a wrapper follows the length form of what it wraps (primitive inner TLV = definite)
            changed = True
            while changed:
                changed = False
                for nd, d in nodes:
                    if nd.wrapper and nd.children:
                        ch = nd.children[0]
                        want = id(ch) in sub and ch.constructed and not (ch.is_string and id(ch) not in pick)
                        if (id(nd) in sub) != want:
                            (sub.add if want else sub.discard)(id(nd))
                            changed = True

        indef_of = {}

        def opt(nd, d):
            o = opt2(nd, d)
            indef_of[id(nd)] = bool(o.get("indef"))
            return o

        def opt2(nd, d):
            o = {}
            if use_cstr and id(nd) in pick:
                ln = len(nd.content) - (1 if nd.bits_unused is not None else 0)
                cuts = sorted(set(rng.randrange(0, ln + 1) for _ in range(rng.choice([0, 1, 2, 3])))) if ln else []
                o.update(split=cuts or [0], nest=rng.choice([0, 0, 1, 2]))
                # plain = the string TLV carries the universal OCTET STRING / BIT STRING tag itself
                used.add("cstr" if is_plain(nd) else "cstrtagged")
                if o["nest"] and len(o["split"]) > 0 and ln > 0:
                    used.add("cstrnest")
                if use_indef and rng.random() < 0.5:
                    o["indef"] = True
                    used.add("indef")
                if use_indef and rng.random() < 0.3:
                    o["seg_indef"] = o["nest"] > 0
                    if o["seg_indef"]:
                        used.add("indef")
            elif nd.constructed and use_indef and id(nd) in sub:
                o["indef"] = True
                used.add("indef")
            if use_long and zs[id(nd)] and not o.get("indef"):
                o["lenzeros"] = zs[id(nd)]
                used.add("longlen")
            return o
        b = der.serialize(tree, opt)
        # an EXPLICIT-tag wrapper whose length form differs from that of the TLV it wraps
        for nd, d in nodes:
            if nd.wrapper and nd.children and indef_of.get(id(nd)) != indef_of.get(id(nd.children[0]), False):
                used.add("indefmix")
                break
        if used:
            out.append(("+".join(sorted(used)), b))
    for i in range(n):
        if cons:
            emit(True, False, False)
            emit("all", False, False)
        emit(False, True, False)
        if strs:
            emit(False, False, True)
            emit(False, True, True)
            emit(True, False, True)
        emit(True, True, True)
    seen = set()
    res = []
    for f, b in out:
        if b not in seen:
            seen.add(b)
            res.append((f, b))
    return res


def ber_semantic_variants(rng, mod, t, v, enc0, n, time_kinds=("GeneralizedTime",)):
    """valid BER encodings of the same value that differ in content choices rather than in TLV form"""
    out = []
    seen = set()
    for i in range(n):
        if i == n - 1 or rng.random() < 0.15:
            # a non-DER notation of the time values only, nothing else changed (so that what it shows is attributable)
            e = der.Encoder(mod, time_forms=rng)
            # UTCTime has no canonicalising DER encoder in asn1c (a C06 finding): checks that recognise the value by its
            # DER re-encoding vary GeneralizedTime only
            e.time_kinds = time_kinds
        elif (n >= 2 and i == n - 2) or rng.random() < 0.15:
            # REAL values in other BER forms of the same number (even mantissa, longer exponent field, scaling factor,
            # base 8/16, ISO 6093 decimal notations of many lengths), nothing else changed
            e = der.Encoder(mod, real_forms=rng)
        else:
            e = der.Encoder(mod, emit_defaults=rng.random() < 0.5, shuffle=rng if rng.random() < 0.6 else None,
                            true_octet=rng.choice([0xff, 0xff, 0x01, 0x80, 0x7f]),
                            unknown_ext=rng if rng.random() < 0.5 else None)
        try:
            tree = e.tree(t, v)
        except der.Unsupported:
            return out
        if not e.used:
            continue
        fam = "+".join(sorted(e.used))
        # half of them additionally in a non-DER TLV form
        if rng.random() < 0.5 or e.time_forms is not None or e.real_forms is not None:
            b = der.serialize(tree)
        else:
            vs = ber_variants(rng, tree, 1)
            if vs:
                f2, b = rng.choice(vs)
                fam = fam + "+" + f2
            else:
                b = der.serialize(tree)
        if b not in seen:
            seen.add(b)
            out.append((fam, b))
    return out


# ---------------------------------------------------------------------------------------------------------------------
# XER: value-preserving rewritings of a BASIC/CANONICAL-XER document (X.693 8: white-space and comments between
# elements, empty-element tags, white-space inside tags, XML prolog)
import re as _re

_TOK = _re.compile(rb"<[^<>]*>|[^<]+")
_CTRL = set(b"nul soh stx etx eot enq ack bel bs vt ff so si dle dc1 dc2 dc3 dc4 nak syn etb can em sub esc is4 is3 is2 is1".split())


def _kind(tok):
    if not tok.startswith(b"<"):
        return "text"
    if tok.startswith(b"</"):
        return "close"
    if tok.endswith(b"/>"):
        return "empty"
    if tok.startswith(b"<?") or tok.startswith(b"<!"):
        return "other"
    return "open"


def _name(tok):
    return tok.strip(b"</> \t\r\n").split()[0] if tok.strip(b"</> \t\r\n") else b""


def xer_gaps(toks):
    """indices i such that white-space / a comment may be put between toks[i] and toks[i+1] without touching a value"""
    out = []
    for i in range(len(toks) - 1):
        a, b = toks[i], toks[i + 1]
        ka, kb = _kind(a), _kind(b)
        if "text" in (ka, kb) or "other" in (ka, kb):
            continue
        if ka == "open" and kb == "close":
            continue            # <x></x>: possibly an empty character string
        if kb == "empty" or ka == "empty":
            e = b if kb == "empty" else a
            if _name(e) in _CTRL:
                continue        # control-character elements live inside character data
            # an empty element next to text on its other side is character data as well
            j = i + 2 if kb == "empty" else i - 1
            if 0 <= j < len(toks) and _kind(toks[j]) == "text":
                continue
        out.append(i)
    return out


def xer_variants(rng, xb, n):
    """-> [(family, bytes)]"""
    toks = _TOK.findall(xb)
    if not toks or b"".join(toks) != xb:
        return []
    # only well-formed documents are rewritten (the library's XER of wide strings may contain raw '<', '>' and '&':
    # a C01 finding, and nothing that could be rewritten safely)
    for t_ in toks:
        if t_.startswith(b"<"):
            if not _re.match(rb"^</?[A-Za-z_][A-Za-z0-9_.-]*/?>$", t_):
                return []
        elif b">" in t_ or _re.search(rb"&(?!(amp|lt|gt|quot|apos|#[0-9]+|#x[0-9a-fA-F]+);)", t_):
            return []
    out = []
    gaps = xer_gaps(toks)
    WS = [b" ", b"\n", b"\t", b"\r\n", b"   ", b"\n\n    "]
    for _ in range(n):
        fam = rng.choice(["ws", "ws", "comment", "emptyform", "tagspace", "prolog", "mix", "charref", "charref"])
        t = list(toks)
        used = set()
        if fam == "charref":
            # numeric character references (XML 4.1) inside character data: only in text that is certainly a character string
            # (it holds a multi-octet UTF-8 sequence); some of its characters, ASCII or not, are written as &#N; / &#xH;
            cand = [i for i, x in enumerate(toks) if _kind(x) == "text" and any(b > 0x7f for b in x)]
            done = False
            for i in cand:
                try:
                    chars = toks[i].decode("utf-8")
                except UnicodeDecodeError:
                    continue
                outc, j = [], 0
                while j < len(chars):
                    ch = chars[j]
                    if ch == "&":
                        # an existing reference is copied whole
                        e_ = chars.find(";", j)
                        outc.append(chars[j:e_ + 1])
                        j = e_ + 1
                        continue
                    cp = ord(ch)
                    if (cp > 0x7f or ch.isalnum()) and rng.random() < (0.7 if cp > 0x7f else 0.2):
                        outc.append(rng.choice(["&#%d;" % cp, "&#x%x;" % cp, "&#x%X;" % cp, "&#x%04x;" % cp]))
                        done = True
                    else:
                        outc.append(ch)
                    j += 1
                t[i] = "".join(outc).encode("utf-8")
            if done:
                used.add("charref")
        if fam in ("ws", "mix") and gaps:
            ins = {}
            for g in rng.sample(gaps, max(1, min(len(gaps), rng.choice([1, 2, len(gaps)])))):
                ins[g] = rng.choice(WS)
            t = [x + ins.get(i, b"") for i, x in enumerate(t)]
            used.add("ws")
        if fam in ("comment", "mix") and gaps:
            ins = {}
            for g in rng.sample(gaps, min(len(gaps), rng.choice([1, 2]))):
                ins[g] = rng.choice([b"<!-- c -->", b"<!---->", b" <!-- <x>1</x> -->\n", b"<!-- a --><!-- b -->"])
            t = [x + ins.get(i, b"") for i, x in enumerate(t)]
            used.add("comment")
        if fam in ("emptyform", "mix"):
            t2, i, done = [], 0, False
            while i < len(t):
                x = t[i]
                k = _kind(toks[i]) if i < len(toks) else "text"
                if k == "open" and i + 1 < len(toks) and _kind(toks[i + 1]) == "close" and x == toks[i] and rng.random() < 0.6:
                    nm = _name(toks[i])
                    t2.append(b"<" + nm + b"/>" + t[i + 1][len(toks[i + 1]):])
                    i += 1
                    done = True
                else:
                    t2.append(x)
                i += 1
            if done:
                t = t2
                used.add("emptyform")
        if fam in ("tagspace", "mix"):
            t2, done = [], False
            for i, x in enumerate(t):
                base = toks[i] if i < len(toks) and x.startswith(toks[i]) else None
                if base is not None and _kind(base) in ("open", "close", "empty") and _name(base) not in _CTRL and rng.random() < 0.4:
                    sp = rng.choice([b" ", b"\n", b"\t "])
                    nb = base[:-2] + sp + b"/>" if base.endswith(b"/>") else base[:-1] + sp + b">"
                    t2.append(nb + x[len(base):])
                    done = True
                else:
                    t2.append(x)
            if done:
                t = t2
                used.add("tagspace")
        doc = b"".join(t)
        if fam in ("prolog", "mix") and (fam == "prolog" or rng.random() < 0.3):
            doc = rng.choice([b'<?xml version="1.0" encoding="UTF-8"?>\n', b'<?xml version="1.0"?>', b"<!-- lead -->\n", b"\n  "]) + doc
            used.add("prolog")
        if used and doc != xb:
            out.append(("+".join(sorted(used)), doc))
    seen, res = set(), []
    for f, d in out:
        if d not in seen:
            seen.add(d)
            res.append((f, d))
    return res
