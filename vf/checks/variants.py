"""BER variant families of a reference TLV tree (all valid per X.690 8)."""
from ..asn import der


def _nodes(tree, out, depth=0):
    out.append((tree, depth))
    if tree.constructed:
        for ch in tree.children:
            _nodes(ch, out, depth + 1)


def ber_variants(rng, tree, n):
    """-> list of (family, bytes); family names exactly the BER liberties used:
    'indef' (some indefinite length), 'cstr' (some constructed string), 'longlen' (non-minimal length octets)"""
    nodes = []
    _nodes(tree, nodes)
    cons = [nd for nd, d in nodes if nd.constructed]
    strs = [nd for nd, d in nodes if nd.is_string and not nd.constructed]
    out = []

    def emit(use_indef, use_long, use_cstr):
        used = set()
        sub = set(id(c) for c in cons if rng.random() < 0.5) or ({id(cons[0])} if cons else set())
        if use_indef == "all":
            sub = set(id(c) for c in cons)
        zs = {id(nd): rng.choice([0, 0, 1, 2, 4]) for nd, d in nodes}
        pick = set(id(s_) for s_ in strs if rng.random() < 0.6) or ({id(strs[0])} if strs else set())

        def opt(nd, d):
            o = {}
            if use_cstr and id(nd) in pick:
                ln = len(nd.content) - (1 if nd.bits_unused is not None else 0)
                cuts = sorted(set(rng.randrange(0, ln + 1) for _ in range(rng.choice([0, 1, 2, 3])))) if ln else []
                o.update(split=cuts or [0], nest=rng.choice([0, 0, 1, 2]))
                used.add("cstr")
                if use_indef and rng.random() < 0.5:
                    o["indef"] = True
                    used.add("indef")
                if use_indef and rng.random() < 0.3:
                    o["seg_indef"] = o["nest"] > 0
                    if o["seg_indef"]:
                        used.add("indef")
            elif nd.constructed and use_indef and id(nd) in sub:
                o["indef"] = True
                used.add("indef")
            if use_long and zs[id(nd)] and not o.get("indef"):
                o["lenzeros"] = zs[id(nd)]
                used.add("longlen")
            return o
        b = der.serialize(tree, opt)
        if used:
            out.append(("+".join(sorted(used)), b))
    for i in range(n):
        if cons:
            emit(True, False, False)
            emit("all", False, False)
        emit(False, True, False)
        if strs:
            emit(False, False, True)
            emit(False, True, True)
            emit(True, False, True)
        emit(True, True, True)
    seen = set()
    res = []
    for f, b in out:
        if b not in seen:
            seen.add(b)
            res.append((f, b))
    return res
