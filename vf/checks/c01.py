"""C01 -- encode-then-decode returns the same value in every transfer syntax,
and transcoding through chains of syntaxes never changes it."""
import os, random
from .. import build, core, drv, harness, taboo
from ..asn import gen, model

SYNS = ["DER", "OER", "UPER", "BXER", "CXER"]


def chain_ops(tname, syn_pairs):
    """ops for one value already sitting in slot 0 (D0 = its DER)"""
    ops = ["enc s=0 syn=DER"]
    by_first = {}
    for s1, s2 in syn_pairs:
        by_first.setdefault(s1, []).append(s2)
    plan = []
    for s1, seconds in by_first.items():
        ops += ["enc s=0 syn=%s reg=1" % s1, "dec s=1 t=%s syn=%s inreg=1" % (tname, s1), "cmp a=0 b=1",
                "enc s=1 syn=DER quiet=0"]
        plan.append(("first", s1, None, len(ops) - 4))
        for s2 in seconds:
            ops += ["enc s=1 syn=%s reg=2" % s2, "dec s=2 t=%s syn=%s inreg=2" % (tname, s2), "cmp a=0 b=2",
                    "enc s=2 syn=DER", "free s=2"]
            plan.append(("second", s1, s2, len(ops) - 5))
        ops.append("free s=1")
    return ops, plan


def judge_step(ev, i, d0):
    """events at i: enc(reg), dec, cmp, encDER -> (ok, symptom, detail, next_i)"""
    e, d, c, e2 = ev[i], ev[i + 1], ev[i + 2], ev[i + 3]
    if e.get("error") or int(e.get("rc", -1)) < 0:
        return False, "encode-failed", "rc=%s errno=%s failtype=%s" % (e.get("rc"), e.get("errno"), e.get("failtype")), i + 4
    produced = int(e["rc"])
    if d.get("error"):
        return False, "decode-error", str(d), i + 4
    if d.get("rc") != "OK":
        return False, "decode-" + d.get("rc", "?"), "produced=%d consumed=%s out=%s" % (produced, d.get("consumed"),
                                                                                     e.get("out", "")[:120]), i + 4
    if int(d["consumed"]) != produced:
        return False, "consumed-mismatch", "produced=%d consumed=%s" % (produced, d["consumed"]), i + 4
    if c.get("rc") != "0":
        return False, "compare-nonzero", "compare_struct=%s" % c.get("rc"), i + 4
    if e2.get("out") != d0:
        return False, "der-differs", "DER after round trip %s != %s" % (e2.get("out", "")[:100], d0[:100]), i + 4
    return True, None, None, i + 4


def real_round(chk, tc, quick):
    """the shipped real-world specifications, values = their shipped sample PDUs (vf/realpdu.py): all 25 syntax pairs"""
    from .. import realpdu
    nm = realpdu.names(quick)
    blds = realpdu.make_many(tc, nm)
    all_pairs = [(a, b) for a in SYNS for b in SYNS]
    for spec, pdu, syn, label, data in realpdu.samples(tc, nm):
        b = blds[spec]
        if b.exe is None:
            chk.inconcl("shipped specification %s not built (%s)" % (spec, b.error[0]))
            continue
        ops, plan = chain_ops(pdu, all_pairs)
        allops = ["dec s=0 t=%s syn=%s in=%s" % (pdu, syn, drv.hx(data))] + ops
        r = drv.run_cases(b.exe, [drv.Case(1, allops)], per_case_timeout=300).get(1)
        replay = {"module": b.text, "options": b.options, "pdu": pdu, "sample": "examples/" + label, "sample_hex": data.hex()[:4000]}
        if r is None or r.status == "notrun":
            chk.inconcl("case not run")
            continue
        if r.status in ("crash", "hang"):
            kind, frame = drv.classify_report(r.stderr)
            chk.evaluations += 1
            import re as _re
            m_ = _re.search(r"syn=(\w+)", allops[len(r.events)]) if len(r.events) < len(allops) else None
            chk.violation({"symptom": r.status, "report": kind, "frame": frame, "kind": "real", "syntax": m_.group(1) if m_ else "-", "fids": []},
                          "%s during round trip of the shipped sample %s: %s in %s" % (r.status, label, kind, frame),
                          dict(replay, stderr=r.stderr[-3000:], events=r.events[-6:]))
            continue
        ev = r.events
        if not ev or ev[0].get("rc") != "OK":
            chk.inconcl("shipped sample %s not decoded (C03)" % label)
            continue
        chk.count("real_samples")
        d0 = ev[1].get("out")
        failed_first = set()
        for step, s1, s2, opidx in plan:
            i = opidx + 1
            if i + 3 >= len(ev):
                break
            if step == "second" and s1 in failed_first:
                continue
            ok, sym, detail, _ = judge_step(ev, i, d0)
            chk.evaluations += 1
            chk.seen((b.seed, label, s1, s2))
            syn2 = s2 if step == "second" else s1
            if ok:
                chk.count("real_steps_ok")
                continue
            if step == "first":
                failed_first.add(s1)
            nl = False
            if sym == "consumed-mismatch" and syn2 == "BXER":
                e0, d1, c1, e2 = ev[i], ev[i + 1], ev[i + 2], ev[i + 3]
                if int(e0["rc"]) - int(d1["consumed"]) == 1 and e0.get("out", "").endswith("0a"):
                    sym = "consumed-short-by-trailing-newline"
                    nl = c1.get("rc") == "0" and e2.get("out") == d0
                    if not nl:
                        sym += "+value-differs"
            chk.violation({"symptom": sym, "syntax": syn2, "step": step if not nl else "-", "kind": "real" if not nl else "-", "fids": [], "sample": label},
                          "shipped sample %s (%s): %s -> %s: %s (%s)" % (label, pdu, s1, s2 or "-", sym, detail),
                          dict(replay, s1=s1, s2=s2, events=ev[i:i + 4]))
        if int(r.end.get("live", 0) or 0) != 0:
            chk.violation({"symptom": "leak", "kind": "real", "fids": []},
                          "ledger: %s allocations still live after freeing all structures of the shipped sample %s" % (r.end.get("live"), label), replay)


def run(tier, seed):
    chk = core.Check("C01", tier, seed)
    quick = tier == "quick"
    rng = random.Random(seed)
    chk.rule = ("generated modules (type algebra of the statement) x boundary-biased values brought in by reference DER; "
                "for every ordered pair (S1,S2) of {DER,OER,UPER,BASIC-XER,CANONICAL-XER}: v -> enc S1 -> dec S1 -> enc S2 -> dec S2, "
                "each step judged (rc>=0, RC_OK, consumed==produced, compare_struct==0, DER equal to the DER of v); "
                "the same chains on the shipped X.509 / LDAP (thorough: UMTS RRC) specifications with their shipped sample PDUs as values; "
                "ASan+UBSan+ledger build; distinct = distinct (module, type, value, S1, S2)")
    chk.assumptions = ["values enter through ber_decode of the reference DER (entry failures are C03's business and counted inconclusive here)",
                       "types containing constructs with a listed known finding for a syntax are exercised for that syntax only in targeted cases"]
    tc = build.toolchain()
    tb = taboo.Taboo("C01")
    nmod = int(os.environ.get("VERIF_NMOD", 4 if quick else 40))
    nvals = 5 if quick else 14
    prof = gen.profile(max_len=24, long_values=not quick)
    seeds = [seed * 1000 + i for i in range(nmod)]
    builds = []
    builds += harness.make_many(tc, seeds, prof, atoms=12, composites=10)
    if not quick:
        builds += harness.make_many(tc, [s + 500 for s in seeds[:10]], prof, atoms=10, composites=8,
                                    options=("-fwide-types",))
    from ..asn import shapes
    builds.append(harness.make(tc, seed * 1000 + 999, prof, module_fn=lambda g: shapes.build("SH")))
    all_pairs = [(a, b) for a in SYNS for b in SYNS]
    real_round(chk, tc, quick)
    for b in builds:
        if b.exe is None:
            chk.inconcl("module not built (%s)" % b.error[0])
            chk.count("modules_not_built")
            continue
        chk.count("modules")
        cases, meta = [], {}
        cid = 0
        for tname, t in b.mod.types.items():
            if b.mod.name == "SH":
                b.gen.mod = b.mod
                vals = shapes.values(b.mod, tname, rng, quick)
            else:
                vals = b.gen.values(t, nvals)
            for v in vals:
                ref = harness.ref_der(b, t, v)
                if ref is None:
                    continue
                # syntaxes usable for this type (taboo features are exercised in targeted cases only)
                allids = {s: taboo.ids(b.mod, t, v, s) for s in SYNS}
                feats = {s: tb.hit(allids[s]) for s in SYNS}
                clean = [s for s in SYNS if not feats[s]]
                targeted = rng.random() < 0.15 or bool(chk.discover)
                syns = SYNS if targeted else clean
                pairs = [(x, y) for (x, y) in all_pairs if x in syns and y in syns]
                if quick and len(pairs) > 9 and not targeted:
                    # every S1 always, a rotating subset of S2 (all 25 pairs are covered across values)
                    k = cid % 5
                    pairs = [(x, y) for (x, y) in pairs if (SYNS.index(y) + SYNS.index(x)) % 5 in (k, (k + 1) % 5)]
                if b.mod.name == "SH" and len(ref) > 2000:
                    # long boundary values: every syntax once (then DER), not all 25 pairs
                    pairs = [(x, "DER") for x in syns]
                if not pairs:
                    continue
                ops, plan = chain_ops(tname, pairs)
                cid += 1
                cases.append(drv.Case(cid, ["dec s=0 t=%s syn=BER in=%s" % (tname, drv.hx(ref))] + ops))
                meta[cid] = (tname, t, v, ref, plan, feats, allids)
        res = drv.run_parallel(b.exe, cases)
        casemap = {c.cid: c for c in cases}
        for cid, (tname, t, v, ref, plan, feats, allids) in meta.items():
            r = res.get(cid)
            rt = b.mod.resolve(t)
            base = {"module_seed": b.seed, "options": " ".join(b.options), "type": tname}
            replay = {"module": b.text, "options": b.options, "pdu": tname, "value": gen.value_repr(v, 2000),
                      "ref_der": ref.hex()}
            if r is None or r.status == "notrun":
                chk.inconcl("case not run")
                continue
            if r.status in ("crash", "hang"):
                kind, frame = drv.classify_report(r.stderr)
                chk.evaluations += 1
                lastsyn = "-"
                for op in reversed(r.events):
                    pass
                # the syntax of the op that died = the op after the last answered one
                nans = len(r.events)
                allops = casemap[cid].ops
                if nans < len(allops):
                    import re as _re
                    m_ = _re.search(r"syn=(\w+)", allops[nans])
                    lastsyn = m_.group(1) if m_ else "-"
                chk.violation({"symptom": r.status, "report": kind, "frame": frame, "kind": rt.kind, "syntax": lastsyn,
                               "fids": sorted(set(sum(feats.values(), [])))},
                              "%s during round trip of %s %s: %s in %s" % (r.status, tname, gen.value_repr(v, 80), kind, frame),
                              dict(replay, stderr=r.stderr[-3000:], events=r.events[-6:]),
                              disc={"ids": sorted(allids.get(lastsyn, [])), "type": model.type_text(t, 0), "syntax": lastsyn})
                continue
            ev = r.events
            if not ev or ev[0].get("rc") != "OK" or int(ev[0].get("consumed", -1)) != len(ref):
                chk.inconcl("entry decode of reference DER failed (C03)")
                if os.environ.get("VERIF_SHOW_ENTRY"):
                    print("ENTRY", tname, model.type_text(t, 0)[:300].replace("\n", " "), gen.value_repr(v, 200), ref.hex()[:120], ev[0] if ev else None)
                continue
            d0 = ev[1].get("out")
            if int(ev[1].get("rc", -1)) < 0:
                chk.evaluations += 1
                chk.violation({"symptom": "encode-failed", "syntax": "DER", "kind": rt.kind, "fids": []},
                              "DER encoding of a decoded value fails for %s" % tname, replay)
                continue
            failed_first = set()
            for step, s1, s2, opidx in plan:
                i = opidx + 1
                if i + 3 >= len(ev):
                    break
                if step == "second" and s1 in failed_first:
                    continue
                ok, sym, detail, _ = judge_step(ev, i, d0)
                chk.evaluations += 1
                chk.seen((b.seed, tname, ref, s1, s2))
                syn = s2 if step == "second" else s1
                if not ok:
                    if step == "first":
                        failed_first.add(s1)
                    fl = feats[syn] if step == "first" else (feats[s1] + feats[s2])
                    if sym == "consumed-mismatch" and syn == "BXER":
                        e0, d1 = ev[i], ev[i + 1]
                        if int(e0["rc"]) - int(d1["consumed"]) == 1 and e0.get("out", "").endswith("0a"):
                            sym = "consumed-short-by-trailing-newline"
                            # the value itself is judged by the remaining conditions
                            c1, e2 = ev[i + 2], ev[i + 3]
                            if c1.get("rc") != "0" or e2.get("out") != d0:
                                sym = "consumed-short-by-trailing-newline+value-differs"
                    nl = sym == "consumed-short-by-trailing-newline"
                    chk.violation({"symptom": sym, "syntax": syn, "step": step if not nl else "-",
                                   "kind": rt.kind if not nl else "-", "fids": sorted(set(fl)) if not nl else []},
                                  "%s %s: %s -> %s: %s (%s) value %s" % (
                                      tname, model.type_text(t, 0)[:120].replace("\n", " "), s1, s2 or "-", sym, detail,
                                      gen.value_repr(v, 100)),
                                  dict(replay, s1=s1, s2=s2, events=ev[i:i + 4]),
                                  disc=None if nl else {"ids": sorted(allids[syn]), "type": model.type_text(t, 0), "syntax": syn})
            if int(r.end.get("live", 0) or 0) != 0:
                chk.violation({"symptom": "leak", "kind": rt.kind, "fids": []},
                              "ledger: %s allocations still live after freeing all structures of %s" % (r.end.get("live"), tname),
                              replay)
            if len(chk.samples) < 4:
                chk.sample({"type": model.type_text(t, 0)[:200], "value": gen.value_repr(v, 120), "ref_der": ref.hex()[:80],
                            "pairs": len(plan)})
    return chk.finish()
