"""C08 -- asn_check_constraints accepts exactly the values the specification
allows; failures carry a bounded, terminated message naming a type."""
import copy, os, random
from .. import build, core, drv, harness, taboo
from ..asn import gen, model, der
from ..asn import constraints as C
from ..asn.model import ALPHABET, CHAR_KINDS


def origin(mod, t, which):
    """where the constraints of a node are written: on a named type definition
    (T ::= X (c)), on an inline use (member / element), or both"""
    top = set(id(x) for x in mod.types.values())
    o = set()
    n = 0
    while True:
        if getattr(t, which) is not None:
            o.add("typedef" if id(t) in top else "inline")
        if t.kind != "REF":
            break
        t = mod.types[t.ref]
        n += 1
        if n > 100:
            break
    return "+".join(sorted(o)) or "builtin"


def unjudged(mod, t, v, depth=0):
    """value contains something whose validity the standards leave arguable"""
    rt = mod.resolve(t)
    k = rt.kind
    if depth > 60:
        return True
    if k == "BMPString":
        return any(c in "\ufffe\uffff" for c in v)      # ISO 10646 non-characters; asn1c's BMPString is 0..65533
    if k in ("BMPString", "UniversalString"):
        return False
    if k in ("SEQUENCE", "SET"):
        return any(unjudged(mod, c.type, v[c.name], depth + 1) for c in rt.all_comps() if c.name in v)
    if k == "CHOICE":
        c = [c for c in rt.all_comps() if c.name == v[0]][0]
        return unjudged(mod, c.type, v[1], depth + 1)
    if k in ("SEQUENCE OF", "SET OF"):
        return any(unjudged(mod, rt.elem, e, depth + 1) for e in v)
    return False


def wide_nonascii_alpha(mod, t, v, depth=0):
    """a BMPString/UniversalString node (non-empty) whose FROM constraint names characters above 0x7f"""
    rt = mod.resolve(t)
    k = rt.kind
    if depth > 60:
        return False
    if k in ("BMPString", "UniversalString"):
        alpha, aext = C.alphabet(mod, t, k)
        return bool(alpha) and any(ord(c) > 0x7f for c in alpha)
    if k in ("SEQUENCE", "SET"):
        return any(wide_nonascii_alpha(mod, c.type, v[c.name], depth + 1) for c in rt.all_comps() if c.name in v)
    if k == "CHOICE":
        c = [c for c in rt.all_comps() if c.name == v[0]][0]
        return wide_nonascii_alpha(mod, c.type, v[1], depth + 1)
    if k in ("SEQUENCE OF", "SET OF"):
        return any(wide_nonascii_alpha(mod, rt.elem, e, depth + 1) for e in v)
    return False


def except_only(specs, v, base):
    """the value is excluded by an EXCEPT clause only: with every EXCEPT dropped the constraint admits it"""
    cur = base if base is not None else C.IntSet.all()
    for tree, e, add in specs:
        cur = cur.inter(C.eval_tree(tree, cur, drop_except=True))
    return cur.contains(v)


def violations(mod, t, v, path="", out=None, depth=0):
    """X.680 semantics: list of (path, what, class) for every violated constraint in v"""
    out = [] if out is None else out
    rt = mod.resolve(t)
    k = rt.kind
    if depth > 60:
        return out
    if k == "INTEGER":
        specs = C.chain(mod, t, "value_c")
        if specs:
            root, ext = C.general_set(specs)
            if not ext and not root.contains(v):
                sub = ""
                # the compiler picks the C type from the constraint with every EXCEPT dropped
                droot = C.IntSet.all()
                for tree_, e_, a_ in specs:
                    droot = droot.inter(C.eval_tree(tree_, droot, drop_except=True))
                if v < 0 and droot.lb() is not None and droot.lb() >= 0 and (droot.ub() is None or droot.ub() > 2147483647):
                    sub = ":negative-into-unsigned"     # the type is kept in an unsigned long
                elif root.iv == [(0, 4294967295)] and v > 4294967295:
                    sub = ":above-uint32"
                elif except_only(specs, v, None):
                    sub = ":except-only"
                elif root.lb() is None and root.ub() is None:
                    sub = ":hull-unbounded"     # a hole inside (MIN..a | b..MAX)
                out.append((path, "value", "value:%s:%s%s" % (k, origin(mod, t, "value_c"), sub)))
    elif k in ("BIT STRING", "OCTET STRING") or k in CHAR_KINDS:
        n = v[1] if k == "BIT STRING" else len(v)
        specs = C.chain(mod, t, "size_c")
        if specs:
            root, ext = C.general_set(specs, C.IntSet([(0, None)]))
            if not ext and not root.contains(n):
                out.append((path, "size", "size:%s:%s%s" % (k, origin(mod, t, "size_c"), ":except-only" if except_only(specs, n, C.IntSet([(0, None)])) else (":hull-unbounded" if root.lb() == 0 and root.ub() is None else ""))))
        if k in CHAR_KINDS:
            alpha, aext = C.alphabet(mod, t, k)
            if alpha is None and k in ALPHABET:
                alpha = ALPHABET[k]
            if alpha is not None and not aext and any(c not in alpha for c in v):
                out.append((path, "alphabet", "alphabet:%s:%s" % (k, origin(mod, t, "alpha_c") if C.alphabet(mod, t, k)[0] is not None else "builtin")))
    elif k in ("SEQUENCE", "SET"):
        for c in rt.all_comps():
            if c.name in v:
                violations(mod, c.type, v[c.name], path + "." + c.name, out, depth + 1)
    elif k == "CHOICE":
        alt, av = v
        c = [c for c in rt.all_comps() if c.name == alt][0]
        violations(mod, c.type, av, path + "." + alt, out, depth + 1)
    elif k in ("SEQUENCE OF", "SET OF"):
        specs = C.chain(mod, t, "size_c")
        if specs:
            root, ext = C.general_set(specs, C.IntSet([(0, None)]))
            if not ext and not root.contains(len(v)):
                out.append((path, "size", "size:%s:%s%s" % (k, origin(mod, t, "size_c"), ":except-only" if except_only(specs, len(v), C.IntSet([(0, None)])) else (":hull-unbounded" if root.lb() == 0 and root.ub() is None else ""))))
        for i, e in enumerate(v):
            violations(mod, rt.elem, e, path + "[%d]" % i, out, depth + 1)
    return out


def leaf_faults(mod, t, v, rng):
    """replacement values for the node (t, v) that violate exactly one of its own constraints"""
    rt = mod.resolve(t)
    k = rt.kind
    out = []
    if k == "INTEGER":
        specs = C.chain(mod, t, "value_c")
        if specs:
            root, ext = C.general_set(specs)
            if not ext:
                comp = root.complement().inter(C.IntSet([(-(1 << 63), (1 << 63) - 1)]))
                for a, b in comp.iv:
                    out += [a, b] if a != b else [a]
    elif k in ("OCTET STRING", "BIT STRING") or k in CHAR_KINDS:
        specs = C.chain(mod, t, "size_c")
        n = v[1] if k == "BIT STRING" else len(v)

        def resize(m):
            if k == "OCTET STRING":
                return (v + b"\x55" * m)[:m]
            if k == "BIT STRING":
                nb = (m + 7) // 8
                data = bytearray((v[0] + b"\xff" * nb)[:nb])
                if m % 8 and data:
                    data[-1] &= (0xff << (8 - m % 8)) & 0xff
                return (bytes(data), m)
            fill = v[0] if v else None
            if fill is None:
                alpha, aext = C.alphabet(mod, t, k)
                if alpha is None:
                    alpha = ALPHABET.get(k, "a")
                if not alpha:
                    return None
                fill = alpha[0]
            return (v + fill * m)[:m]
        if specs:
            root, ext = C.general_set(specs, C.IntSet([(0, None)]))
            if not ext:
                comp = root.complement().inter(C.IntSet([(0, 70010)]))
                for a, b in comp.iv:
                    for m in set([a, b]):
                        if m <= 300 or m in (65536, 65537, 70001, 70005):
                            r = resize(m)
                            if r is not None:
                                out.append(r)
        if k in CHAR_KINDS and n > 0:
            alpha, aext = C.alphabet(mod, t, k)
            if alpha is None and k in ALPHABET:
                alpha = ALPHABET[k]
            if alpha is not None and not aext:
                uni = {"NumericString": "A*", "PrintableString": "*_@", "VisibleString": "\x7f\x1f", "IA5String": "\x80\xff"}.get(k)
                cands = [c for c in (uni or "") if c not in alpha]
                if not cands:
                    # a character of the base type that the FROM constraint excludes
                    base = ALPHABET.get(k)
                    pool = base if base else "".join(chr(x) for x in (0x20, 0x41, 0x7a, 0x3b1, 0x20ac, 0xffff))
                    cands = [c for c in pool if c not in alpha][:3]
                for c in cands[:2]:
                    pos = rng.randrange(n)
                    out.append(v[:pos] + c + v[pos + 1:])
    elif k in ("SEQUENCE OF", "SET OF"):
        specs = C.chain(mod, t, "size_c")
        if specs:
            root, ext = C.general_set(specs, C.IntSet([(0, None)]))
            if not ext:
                comp = root.complement().inter(C.IntSet([(0, 300)]))
                for a, b in comp.iv:
                    for m in set([a, b]):
                        if m <= 40:
                            if m <= len(v):
                                out.append(list(v[:m]))
                            elif v:
                                out.append(list(v) + [copy.deepcopy(v[0])] * (m - len(v)))
    return out


def single_faults(mod, t, v, rng, limit):
    """(path, faulty whole value) with exactly one violated constraint"""
    res = []

    def walk(t, v, setter, path, depth):
        if depth > 30:
            return
        rt = mod.resolve(t)
        for fv in leaf_faults(mod, t, v, rng):
            res.append((path, setter(fv)))
        k = rt.kind
        if k in ("SEQUENCE", "SET"):
            for c in rt.all_comps():
                if c.name in v:
                    walk(c.type, v[c.name], (lambda nv, c=c: setter(dict(v, **{c.name: nv}))), path + "." + c.name, depth + 1)
        elif k == "CHOICE":
            alt, av = v
            c = [c for c in rt.all_comps() if c.name == alt][0]
            walk(c.type, av, (lambda nv: setter((alt, nv))), path + "." + alt, depth + 1)
        elif k in ("SEQUENCE OF", "SET OF"):
            for i, e in enumerate(v[:6]):
                walk(rt.elem, e, (lambda nv, i=i: setter(list(v[:i]) + [nv] + list(v[i + 1:]))), path + "[%d]" % i, depth + 1)
    walk(t, v, lambda nv: nv, "", 0)
    rng.shuffle(res)
    return res[:limit]


def constraint_shapes(seed, quick):
    """a module of constraint shapes that random generation meets too rarely: unions / intersections / EXCEPT at the
    widths where the native representation changes, SIZE sets with holes, constrained collections (inline, by
    reference, by constrained reference) of constrained elements"""
    from ..asn.model import Module, Type, Comp, Constraint, MIN, MAX
    from . import c09
    m = Module("CS", "AUTOMATIC")
    R = lambda a, b: ("range", a, b)
    U = lambda a, b: ("union", a, b)
    ints = [U(R(0, 5), R(10, 4294967295)), U(R(-2147483648, -5), R(7, 2147483647)), U(R(0, 5), R(10, 255)), U(R(MIN, -1), R(1, MAX)),
            R(0, 4294967295), R(1, 4294967295), ("except", R(0, 100), ("val", 50)), ("inter", U(R(0, 10), R(20, 30)), R(5, 25)),
            U(("val", -1), R(3, 4)), U(R(0, 2147483647), R(2147483649, 4294967295)), R(-128, 127), U(R(-32768, -2), R(2, 32767)),
            U(U(("val", 1), ("val", 3)), ("val", 5)), ("allexcept", R(3, 7))]
    trees = [t for t in c09.small_trees(c09.U_INT) if c09.legal(t, C.IntSet.all())]
    step = 97 if quick else 11
    ints += [t for i, t in enumerate(trees) if (i + seed) % step == 0]
    wcomps = []
    for i, tr in enumerate(ints):
        m.add("I%d" % i, Type("INTEGER", value_c=Constraint([(tr, False, None)])))
        if i < 14:
            wcomps.append(Comp("i%d" % i, Type("REF", ref="I%d" % i), optional=(i % 3 == 0)))
    sizes = [U(R(1, 3), R(7, 9)), U(("val", 0), ("val", 4)), ("val", 2), R(2, MAX), ("except", R(0, 6), R(2, 3)), ("inter", R(0, 5), R(3, 9))]
    strees = [t for t in c09.small_trees(c09.U_SIZE) if c09.legal(t, C.IntSet([(0, None)]))]
    sizes += [t for i, t in enumerate(strees) if (i + seed) % (step * 2) == 0]
    kinds = ["IA5String", "OCTET STRING", "BIT STRING", "PrintableString", "BMPString", "UTF8String"]
    for i, tr in enumerate(sizes):
        k = kinds[i % len(kinds)]
        m.add("S%d" % i, Type(k, size_c=Constraint([(tr, False, None)])))
    # permitted alphabets checked through a table (more than one range / a list) whose highest character sits on a
    # multiple of 16 (' ', '0', '@', 'P', '`', 'p'), next to controls that do not
    alphas = [("IA5String", U(R("A", "P"), R("0", "9"))), ("IA5String", ("val", " 0")), ("VisibleString", U(("val", "@"), R("0", "9"))),
              ("PrintableString", U(R("a", "p"), ("val", "A"))), ("IA5String", U(R("0", "9"), R("A", "F"))), ("IA5String", U(("val", "`"), R("a", "c"))),
              ("VisibleString", ("val", "0P")), ("IA5String", U(R(" ", " "), R("0", "0"))), ("PrintableString", U(R("a", "o"), R("0", "8")))]
    for i, (k, tr) in enumerate(alphas):
        m.add("F%d" % i, Type(k, alpha_c=Constraint([(tr, False, None)])))
    m.add("FH", Type("SEQUENCE", comps=[Comp("f%d" % i, Type(k, alpha_c=Constraint([(tr, False, None)])), optional=(i % 2 == 1)) for i, (k, tr) in enumerate(alphas[:4])]))
    m.add("Small", Type("INTEGER", value_c=Constraint.simple(0, 5)))
    m.add("Word", Type("IA5String", size_c=Constraint.simple(1, 3), alpha_c=Constraint([(("range", "a", "f"), False, None)])))
    m.add("Bag", Type("SET OF", elem=Type("REF", ref="Small")))
    m.add("List", Type("SEQUENCE OF", elem=Type("REF", ref="Small")))
    m.add("Words", Type("SEQUENCE OF", elem=Type("REF", ref="Word")))
    m.add("ShortBag", Type("REF", ref="Bag", size_c=Constraint.simple(1, 3)))
    m.add("ShortList", Type("REF", ref="List", size_c=Constraint.simple(1, 3)))
    m.add("Holder", Type("SEQUENCE", comps=[
        Comp("bag", Type("SET OF", elem=Type("REF", ref="Small"), size_c=Constraint.simple(1, 3))),
        Comp("list", Type("SEQUENCE OF", elem=Type("REF", ref="Small"), size_c=Constraint.simple(1, 3))),
        Comp("rbag", Type("REF", ref="Bag", size_c=Constraint.simple(1, 3))),
        Comp("rlist", Type("REF", ref="List", size_c=Constraint.simple(1, 3))),
        Comp("words", Type("REF", ref="Words", size_c=Constraint([(("union", ("val", 1), ("range", 3, 4)), False, None)])), optional=True),
        Comp("sb", Type("REF", ref="ShortBag"), optional=True),
        Comp("inl", Type("SET OF", elem=Type("IA5String", size_c=Constraint.simple(2, 2)), size_c=Constraint.simple(0, 2)), optional=True)]))
    # strings with no constraint of their own: the checker is the built-in alphabet test of the type (edges 0x1f/0x20, 0x7e/0x7f)
    for i, k in enumerate(["VisibleString", "IA5String", "PrintableString", "NumericString"]):
        m.add("U%d" % i, Type(k))
    m.add("UH", Type("SEQUENCE", comps=[Comp("u%d" % i, Type(k), optional=(i % 2 == 1))
                                        for i, k in enumerate(["VisibleString", "IA5String", "PrintableString", "NumericString"])]))
    # constraints inherited through a reference and refined by a constraint of another kind (or one that does not imply the
    # parent's): the checker of the refining type must apply both
    m.add("Base", Type("IA5String", size_c=Constraint.simple(1, 4)))
    m.add("Derived", Type("REF", ref="Base", alpha_c=Constraint([(R("a", "z"), False, None)])))
    m.add("SmallI", Type("INTEGER", value_c=Constraint.simple(1, 20)))
    m.add("Low", Type("REF", ref="SmallI", value_c=Constraint([(R(MIN, 10), False, None)])))
    m.add("Inh", Type("SEQUENCE", comps=[Comp("d", Type("REF", ref="Derived")),
                                         Comp("m", Type("REF", ref="Base", alpha_c=Constraint([(R("0", "9"), False, None)]))),
                                         Comp("l", Type("REF", ref="Low"), optional=True),
                                         Comp("s", Type("REF", ref="Derived", size_c=Constraint.simple(2, 3)), optional=True)]))
    m.add("W", Type("SEQUENCE", comps=wcomps))
    m.add("Pick", Type("CHOICE", comps=[Comp("pa", Type("REF", ref="I0")), Comp("pb", Type("REF", ref="S0")), Comp("pc", Type("REF", ref="Holder")),
                                        Comp("pd", Type("INTEGER", value_c=Constraint([(U(R(0, 5), R(10, 4294967295)), False, None)])))]))
    for t in m.types.values():
        gen._set_module(t, m)
    m.finalize()
    return m


def real_round(chk, tc, quick):
    """the shipped sample PDUs of the shipped real-world specifications (vf/realpdu.py) are valid messages of implementations in
    the field: asn_check_constraints must accept them, whatever the error buffer"""
    from .. import realpdu
    nm = realpdu.names(quick)
    blds = realpdu.make_many(tc, nm)
    for spec, pdu, syn, label, data in realpdu.samples(tc, nm):
        b = blds[spec]
        if b.exe is None:
            chk.inconcl("shipped specification %s not built (%s)" % (spec, b.error[0]))
            continue
        r = drv.run_cases(b.exe, [drv.Case(1, ["dec s=0 t=%s syn=%s in=%s" % (pdu, syn, drv.hx(data)), "chk s=0 eb=128", "chk s=0 eb=0", "chk s=0 eb=1",
                                              "free s=0"])], per_case_timeout=120).get(1)
        replay = {"module": b.text, "pdu": pdu, "sample": "examples/" + label}
        if r is None or r.status == "notrun":
            chk.inconcl("case not run")
            continue
        chk.evaluations += 1
        chk.seen(("real", label))
        if r.status in ("crash", "hang"):
            kind2, frame = drv.classify_report(r.stderr)
            chk.violation({"symptom": r.status, "report": kind2, "frame": frame if not frame.endswith("_constraint") else "X_constraint"},
                          "asn_check_constraints: %s (%s in %s) on the shipped sample %s" % (r.status, kind2, frame, label), dict(replay, stderr=r.stderr[-2000:]))
            continue
        if r.events[0].get("rc") != "OK":
            chk.inconcl("shipped sample %s not decoded (C03)" % label)
            continue
        rcs = [e.get("rc") for e in r.events[1:4]]
        if rcs[0] != "0":
            msg = drv.unhex(r.events[1].get("msg")).decode("latin-1") if r.events[1].get("msg") not in (None, "-") else ""
            chk.violation({"symptom": "rejected-valid", "kind": "real", "sample": label},
                          "asn_check_constraints rejects the shipped sample %s (%s): %s" % (label, pdu, msg[:120]), replay)
        elif len(set(rcs)) != 1:
            chk.violation({"symptom": "verdict-depends-on-errbuf", "kind": "real", "sample": label},
                          "asn_check_constraints verdict on the shipped sample %s changes with the error buffer: %s" % (label, rcs), replay)
        else:
            chk.count("real_samples_accepted")


def run(tier, seed):
    chk = core.Check("C08", tier, seed)
    quick = tier == "quick"
    rng = random.Random(seed)
    chk.rule = ("modules whose value / SIZE / FROM constraints are all non-extensible (on primitives, members at every depth, collection elements and "
                "their counts, through type references); values: valid ones incl. bounds, single-fault mutants (exactly one constraint violated at one "
                "position: every gap of the value set, both sides of each size bound, a character outside the alphabet), multi-fault mutants; values enter "
                "by BER (which does not validate); asn_check_constraints is called with error buffers of 0,1,2,16,128 bytes (exact-size heap buffers under "
                "ASan); oracle: X.680 set semantics (vf/checks/c08.py:violations); distinct = distinct (type, value)")
    chk.assumptions = ["extensible constraints, WITH COMPONENTS, PATTERN, CONTAINING, user-defined constraints are not generated",
                       "-fno-constraints builds are excluded"]
    tc = build.toolchain()
    real_round(chk, tc, quick)
    nmod = int(os.environ.get("VERIF_NMOD", 4 if quick else 40))
    prof = gen.profile(max_len=12, extensible=False, ext_additions=False, set_type=True)
    # extension markers on constructed types are fine (only constraints must be non-extensible)
    builds = harness.make_many(tc, [seed * 1000 + 800 + i for i in range(nmod)], prof, atoms=12, composites=10)
    builds.append(harness.make(tc, seed * 1000 + 899, prof, module_fn=lambda g: constraint_shapes(seed, quick)))
    for b in builds:
        if b.exe is None:
            chk.inconcl("module not built (%s)" % b.error[0])
            continue
        enc = der.Encoder(b.mod)
        names = set(b.mod.types.keys())
        cases, meta = [], {}
        cid = 0
        for tname, t in b.mod.types.items():
            b.gen.mod = b.mod
            vals = b.gen.values(t, 3 if quick else 8)
            items = []
            for v in vals:
                items.append(("valid", v))
                sf = single_faults(b.mod, t, v, rng, 6 if quick else 30)
                for path, fv in sf:
                    items.append(("single-fault", fv))
                if len(sf) >= 2:
                    # multi-fault: apply a second fault on top of a first one when the paths differ
                    p1, f1 = sf[0]
                    for p2, f2 in single_faults(b.mod, t, f1, rng, 3):
                        items.append(("multi-fault", f2))
            for kind, v in items:
                try:
                    ref = enc.encode(t, v)
                except (der.Unsupported, KeyError, ValueError, OverflowError, UnicodeEncodeError):
                    continue
                viol = violations(b.mod, t, v)
                if unjudged(b.mod, t, v):
                    chk.count("skipped_arguable_value")
                    continue
                if kind == "valid" and viol:
                    continue    # generator produced something invalid (e.g. out-of-root on an extensible leftover)
                eb = rng.choice([0, 1, 2, 16, 128])
                cid += 1
                cases.append(drv.Case(cid, ["dec s=0 t=%s syn=BER in=%s" % (tname, drv.hx(ref)), "chk s=0 eb=128", "chk s=0 eb=%d" % eb, "chk s=0 eb=-1",
                                            "chk s=0 exact=1"]))
                meta[cid] = (tname, t, v, kind, viol, ref, eb)
        res = drv.run_parallel(b.exe, cases)
        for cid, (tname, t, v, kind, viol, ref, eb) in meta.items():
            r = res.get(cid)
            if r is None or r.status == "notrun":
                chk.inconcl("case not run")
                continue
            rt = b.mod.resolve(t)
            replay = {"module": b.text, "pdu": tname, "value": gen.value_repr(v, 1500), "ber": ref.hex(), "model_violations": viol[:5]}
            if r.status in ("crash", "hang"):
                kind2, frame = drv.classify_report(r.stderr)
                chk.evaluations += 1
                chk.violation({"symptom": r.status, "report": kind2, "frame": frame if not frame.endswith("_constraint") else "X_constraint"},
                              "asn_check_constraints: %s (%s in %s) on %s" % (r.status, kind2, frame, tname), dict(replay, stderr=r.stderr[-2000:]))
                continue
            ev = r.events
            if not ev or ev[0].get("rc") != "OK":
                chk.inconcl("value could not be brought in by BER (%s)" % (ev[0].get("rc") if ev else "?"))
                continue
            chk.evaluations += 1
            chk.seen((b.seed, tname, ref))
            c128, cx, cnull = ev[1], ev[2], ev[3]
            what = viol[0][1] if viol else "-"
            leafkind = "-"
            nviol = len(viol)
            key = {"case": kind, "constraint": what, "kind": rt.kind, "nviol": min(nviol, 2),
                   "classes": ";".join(sorted(set(x[2] for x in viol))),
                   "wide_nonascii_alpha": wide_nonascii_alpha(b.mod, t, v),
                   "ofofc": any("+ofofc" in i for i in taboo.ids(b.mod, t, v, "DER"))}
            if viol:
                # kind of the node at the first violated path, for classification
                leafkind = node_kind(b.mod, t, v, viol[0][0])
                key["leaf"] = leafkind
            rc = c128.get("rc")
            if (rc == "0") != (not viol):
                chk.violation(dict(key, symptom="accepted-invalid" if viol else "rejected-valid"),
                              "asn_check_constraints(%s) returned %s, the model finds %s; value %s" % (
                                  tname, rc, ("violations %s" % viol[:3]) if viol else "no violation", gen.value_repr(v, 120)),
                              dict(replay, type=model.type_text(t, 0)[:1500]))
                continue
            if {cx.get("rc"), cnull.get("rc")} != {rc}:
                chk.violation(dict(key, symptom="verdict-depends-on-errbuf"),
                              "asn_check_constraints(%s) verdict changes with the error buffer: 128->%s, %d->%s, NULL->%s" % (tname, rc, eb, cx.get("rc"), cnull.get("rc")), replay)
            if len(ev) > 4 and ev[4].get("op") == "chkx":
                x = ev[4]
                for kx, vx in x.items():
                    if not kx.startswith("sz"):
                        continue
                    sz, rr, el, tt = [int(q) for q in vx.split(":")]
                    if (rr == 0) != (rc == "0") or (rr != 0 and (el >= sz or not tt)):
                        chk.violation(dict(key, symptom="errbuf-edge", edge=kx),
                                      "asn_check_constraints(%s) with a buffer of %d bytes for a %s-byte message: rc=%d errlen=%d terminated=%d" % (
                                          tname, sz, x.get("len"), rr, el, tt), replay)
            if rc != "0":
                for e, sz in ((c128, 128), (cx, eb)):
                    if sz > 0:
                        el = int(e.get("errlen", -1))
                        if e.get("term") != "1" or el >= sz or el < 0:
                            chk.violation(dict(key, symptom="errbuf-not-terminated-or-errlen-out-of-range"),
                                          "asn_check_constraints(%s) with a %d-byte buffer: errlen=%s terminated=%s" % (tname, sz, e.get("errlen"), e.get("term")), replay)
                msg = drv.unhex(c128.get("msg")).decode("latin-1") if c128.get("msg") not in (None, "-") else ""
                first = msg.split(":")[0].strip()
                builtin = ("INTEGER", "BOOLEAN", "NULL", "REAL", "ENUMERATED", "BIT STRING", "BIT_STRING", "OCTET STRING", "OCTET_STRING", "IA5String",
                           "VisibleString", "PrintableString", "NumericString", "UTF8String", "BMPString", "UniversalString", "OBJECT IDENTIFIER",
                           "RELATIVE-OID", "UTCTime", "GeneralizedTime", "SEQUENCE", "SET", "CHOICE", "SEQUENCE OF", "SET OF", "SEQUENCE_OF", "SET_OF")
                if not msg or not (first in names or first in builtin or first in member_names(b.mod)):
                    chk.violation(dict(key, symptom="message-names-no-type"),
                                  "asn_check_constraints(%s) failure message %r does not start with a type of the module" % (tname, msg[:80]), replay)
                chk.count("rejected_" + kind)
            else:
                chk.count("accepted_" + kind)
            if len(chk.samples) < 6 and kind != "valid":
                chk.sample({"pdu": tname, "type": model.type_text(t, 0)[:140], "case": kind, "value": gen.value_repr(v, 80), "model": viol[:2],
                            "asn1c_rc": rc})
    return chk.finish()


def node_kind(mod, t, v, path):
    import re
    rt = mod.resolve(t)
    for tok in re.findall(r"\.(\w+)|\[(\d+)\]", path):
        name, idx = tok
        if name:
            if rt.kind == "CHOICE":
                c = [c for c in rt.all_comps() if c.name == name][0]
                v = v[1]
            else:
                c = [c for c in rt.all_comps() if c.name == name][0]
                v = v[name]
            t = c.type
        else:
            t = rt.elem
            v = v[int(idx)] if int(idx) < len(v) else None
        rt = mod.resolve(t)
    return rt.kind


_mn = {}


def member_names(mod):
    if id(mod) not in _mn:
        s = set()
        model.walk_types(mod, lambda t, path: s.update(c.name for c in t.all_comps()) if t.kind in ("SEQUENCE", "SET", "CHOICE") else None)
        _mn[id(mod)] = s
    return _mn[id(mod)]
