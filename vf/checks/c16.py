"""C16 -- INTEGER and REAL conversion helpers: exact, canonical contents."""
import os, random, struct, subprocess, math
from .. import build, core
from ..asn import der

I64MIN, I64MAX, U64MAX = -(1 << 63), (1 << 63) - 1, (1 << 64) - 1


def build_hdriver(tc, variant="asan"):
    out = os.path.join(tc.root, "hdrv.%s" % variant)
    obj = tc.driver_obj("hdriver", variant)
    exe = out + "." + os.path.basename(obj).split(".")[-2]
    if not os.path.exists(exe):
        build.run(["gcc"] + build.VARIANTS[variant] + [obj, tc.skel(variant), "-o", exe + ".tmp", "-lm", "-no-pie"])
        os.rename(exe + ".tmp", exe)
    return exe


def run_script(exe, lines, env=None, timeout=600):
    """-> list of parsed result dicts in order; raises Crash with info on death"""
    data = ("\n".join(lines) + "\n").encode()
    p = subprocess.run([exe], input=data, stdout=subprocess.PIPE, stderr=subprocess.PIPE,
                       env=env or build.san_env(), timeout=timeout)
    out = p.stdout.decode("latin-1").split("\n")
    res = [l for l in out if l.startswith("R ")]
    done = any(l == "DONE" for l in out)
    hang = any(l.startswith("HANG") for l in out)
    return res, done, hang, p.returncode, p.stderr.decode("latin-1")


def fields(line):
    d = {}
    parts = line.split(" ")
    d["op"] = parts[1]
    for kv in parts[2:]:
        i = kv.find("=")
        if i > 0:
            d[kv[:i]] = kv[i + 1:]
    return d


def int_values(rng, n_random):
    vals = set([0, 1, -1])
    for k in range(0, 65):
        for d in (-2, -1, 0, 1, 2):
            for s in (1, -1):
                vals.add(s * (1 << k) + d)
    for _ in range(n_random):
        bits = rng.choice([8, 16, 24, 32, 40, 48, 56, 63, 64, 65])
        vals.add(rng.getrandbits(bits) - (1 << (bits - 1)) * rng.choice([0, 1]))
    return sorted(vals)


def double_patterns(rng, quick):
    pats = set()
    exps = range(0, 2047) if not quick else list(range(0, 2047, 7)) + [0, 1, 2, 1022, 1023, 1024, 1074, 1075, 2045, 2046]
    mants = [0, 1, 2, 3, 1 << 51, (1 << 52) - 1, 0x5555555555555, 0xAAAAAAAAAAAAA, 0xFF, 0xFF00, 0x100, 0x10000000,
             0x8000000000001]
    mants += [1 << b for b in range(0, 52, 1 if not quick else 5)]
    for e in exps:
        for m in mants:
            for s in (0, 1):
                pats.add((s << 63) | (e << 52) | m)
    # subnormals: every single-bit mantissa, and pairs
    for b in range(52):
        for s in (0, 1):
            pats.add((s << 63) | (1 << b))
            pats.add((s << 63) | (1 << b) | 1)
            pats.add((s << 63) | (1 << b) | (1 << 51))
    # specials
    for p in (0, 1 << 63, 0x7ff0000000000000, 0xfff0000000000000, 0x7ff8000000000000, 0x7ff0000000000001,
              0xfff8000000000000, 0x7fffffffffffffff, 0x7ff4000000000000):
        pats.add(p)
    for _ in range(2000 if quick else 200000):
        pats.add(rng.getrandbits(64))
    for _ in range(500 if quick else 20000):
        # "human" doubles
        d = rng.choice([rng.randrange(-10 ** 6, 10 ** 6) / rng.choice([1, 2, 4, 8, 10, 100, 1024]),
                        rng.random(), 10.0 ** rng.randrange(-300, 300)])
        pats.add(struct.unpack(">Q", struct.pack(">d", d))[0])
    return sorted(pats)


def run(tier, seed):
    chk = core.Check("C16", tier, seed)
    chk.rule = ("helper calls asn_{long,ulong,imax,umax}2INTEGER / asn_INTEGER2{long,ulong,imax,umax} / "
                "asn_double2REAL / asn_REAL2double / asn_strto{l,ul,imax,umax}_lim on boundary-exhaustive and random "
                "inputs under ASan+UBSan; oracle = Python big integers and a from-bits X.690 REAL encoder; "
                "distinct = distinct (operation,input) pairs")
    chk.assumptions = ["LP64: long == intmax_t == 64 bit (asserted from the driver's answers)",
                       "reference REAL encoder vf/asn/der.py:real_octets implements X.690 8.5/11.3"]
    quick = tier == "quick"
    rng = random.Random(seed)
    tc = build.toolchain()
    exe = build_hdriver(tc)
    lines = []
    ivals = int_values(rng, 2000 if quick else 100000)
    for v in ivals:
        if I64MIN <= v <= I64MAX:
            lines.append("l2i %d" % v)
            lines.append("im2i %d" % v)
        if 0 <= v <= U64MAX:
            lines.append("ul2i %d" % v)
            lines.append("um2i %d" % v)
    # all INTEGER octet strings of length 1..2 (exhaustive), boundary/random up to 10
    octs = [bytes([a]) for a in range(256)] + [bytes([a, b]) for a in range(256) for b in range(256)]
    for n in range(3, 11):
        for first in (0x00, 0xff, 0x7f, 0x80, 0x01):
            for rest in (0x00, 0xff, 0x80, 0x7f):
                octs.append(bytes([first]) + bytes([rest]) * (n - 1))
                octs.append(bytes([first]) + bytes([rest]) * (n - 2) + b"\x01")
        for _ in range(50 if quick else 3000):
            octs.append(bytes(rng.getrandbits(8) for _ in range(n)))
            # non-minimal forms: sign extension in front of a random shorter value
            k = rng.randrange(1, n)
            body = bytes(rng.getrandbits(8) for _ in range(n - k))
            octs.append((b"\xff" if body[0] & 0x80 else b"\x00") * k + body)
    n_oct_exh = 256 + 65536
    for o in octs:
        lines.append("i2l %s" % o.hex())
    dpats = double_patterns(rng, quick)
    for p in dpats:
        lines.append("d2r %016x" % p)
    rpats = dpats[:: 3 if quick else 1]
    for p in rpats:
        d = struct.unpack(">d", struct.pack(">Q", p))[0]
        lines.append("r2d %s" % (der.real_octets(d).hex() or "-"))
    # numerals
    nums = []
    for lim in (I64MAX, -I64MIN, U64MAX):
        for delta in range(-12, 13):
            nums.append(str(lim + delta))
        s = str(lim)
        for cut in range(1, len(s) + 1):
            nums.append(s[:cut])
            nums.append(s[:cut] + "9")
            nums.append(s[:cut] + "0")
        nums.append(s + "0")
        nums.append(s + "00000")
    nums += ["0", "00", "000000000000000000000000000000001", "1", "9", "10", "99999999999999999999999999"]
    for _ in range(300 if quick else 20000):
        nd = rng.randrange(1, 23)
        nums.append("".join(rng.choice("0123456789") for _ in range(nd)))
    texts = []
    for nmr in nums:
        for sign in ("", "+", "-"):
            for junk in ("", " ", "x", ".5", "-", "+1", "e5"):
                if rng.random() < (0.5 if quick else 1.0) or junk == "":
                    texts.append(sign + nmr + junk)
    texts += ["", "+", "-", "+-", "-+", "--1", "x", " 1", "+x", "-x", "++1"]
    for t in texts:
        lines.append("strto %s" % (t.encode().hex() or "-"))

    res, done, hang, rc, err = run_script(exe, lines)
    chk.evaluations = len(res)
    if not done:
        # crashed or hung on some line: the first unanswered line is the witness
        bad = lines[len(res)] if len(res) < len(lines) else "?"
        kind, frame = __import__("vf.drv", fromlist=["x"]).classify_report(err)
        chk.violation({"symptom": "hang" if hang else "crash", "report": kind, "frame": frame,
                       "op": bad.split(" ")[0]},
                      "helper call died (%s in %s) on: %s" % (kind, frame, bad[:120]),
                      {"line": bad, "stderr": err[-3000:]})
    ints_seen = 0
    for line_in, line_out in zip(lines, res):
        f = fields(line_out)
        op = f["op"]
        chk.seen(line_in)
        if op in ("l2i", "im2i", "ul2i", "um2i"):
            v = int(line_in.split(" ")[1])
            exp = der.int_octets(v).hex()
            ints_seen += 1
            cls = "neg" if v < 0 else ("ge2p63" if v > I64MAX else "pos")
            if f.get("rc") != "0":
                chk.violation({"op": op, "symptom": "rc", "class": cls}, "%s(%d) failed rc=%s" % (op, v, f.get("rc")),
                              {"line": line_in, "got": line_out})
                continue
            if f["out"] != exp:
                chk.violation({"op": op, "symptom": "octets", "class": cls},
                              "%s(%d) stored %s, minimal two's complement is %s" % (op, v, f["out"], exp),
                              {"line": line_in, "got": line_out})
                continue    # the back-conversion of wrong octets is judged by the i2l cases
            check_back(chk, f, v, line_in, line_out, src=op)
        elif op == "i2l":
            o = bytes.fromhex(line_in.split(" ")[1])
            v = int.from_bytes(o, "big", signed=True)
            check_back(chk, f, v, line_in, line_out, src="i2l",
                       nonmin=len(o) > 1 and ((o[0] == 0 and not o[1] & 0x80) or (o[0] == 0xff and o[1] & 0x80)))
        elif op == "d2r":
            p = int(line_in.split(" ")[1], 16)
            d = struct.unpack(">d", struct.pack(">Q", p))[0]
            exp = der.real_octets(d).hex() or "-"
            cls = dclass(p)
            if f.get("rc") != "0":
                chk.violation({"op": "d2r", "symptom": "rc", "class": cls}, "asn_double2REAL(%016x) failed" % p,
                              {"line": line_in, "got": line_out})
                continue
            if f["out"] != exp:
                sym = "octets"
                if cls == "normal" and exp != "-" and f["out"] != "-":
                    # same header and exponent, mantissa = 00.. + expected mantissa ?
                    eb, ob = bytes.fromhex(exp), bytes.fromhex(f["out"])
                    hl = 1 + (eb[0] & 3) + 1 if (eb[0] & 3) < 3 else 2 + eb[1]
                    if ob[:hl] == eb[:hl] and len(ob) > len(eb) and ob[hl:].lstrip(b"\0") == eb[hl:]:
                        sym = "mantissa-leading-zero-octets"
                chk.violation({"op": "d2r", "symptom": sym, "class": cls},
                              "asn_double2REAL(%r = %016x) stored %s, X.690 DER form is %s" % (d, p, f["out"], exp),
                              {"line": line_in, "got": line_out, "expected": exp})
            back = int(f["back"], 16)
            ok = f.get("rc2") == "0" and (back == p or (d != d and is_nan(back)))
            if not ok:
                chk.violation({"op": "d2r", "symptom": "roundtrip", "class": cls},
                              "double %016x -> REAL %s -> %016x (rc %s)" % (p, f["out"], back, f.get("rc2")),
                              {"line": line_in, "got": line_out})
        elif op == "r2d":
            h = line_in.split(" ")[1]
            o = bytes.fromhex(h) if h != "-" else b""
            # expected double from the reference encoding: find by re-encoding
            bits = int(f["bits"], 16)
            d = struct.unpack(">d", struct.pack(">Q", bits))[0]
            if f.get("rc") != "0":
                chk.violation({"op": "r2d", "symptom": "rc"}, "asn_REAL2double(%s) failed" % h,
                              {"line": line_in, "got": line_out})
            elif der.real_octets(d) != o:
                chk.violation({"op": "r2d", "symptom": "value", "class": dclass(bits)},
                              "asn_REAL2double(%s) returned %r whose DER form is %s" % (h, d, der.real_octets(d).hex()),
                              {"line": line_in, "got": line_out})
        elif op == "strto":
            h = line_in.split(" ")[1]
            t = bytes.fromhex(h).decode() if h != "-" else ""
            check_strto(chk, f, t, line_in, line_out)
    chk.extra["int_octet_strings_exhaustive_len_le_2"] = n_oct_exh
    chk.extra["double_patterns"] = len(dpats)
    chk.extra["numerals"] = len(texts)
    chk.extra["integer_conversions"] = ints_seen
    chk.sample({"in": lines[0], "out": res[0] if res else None})
    for i in (len(lines) // 3, len(lines) // 2, len(lines) - 5):
        if i < len(res):
            chk.sample({"in": lines[i], "out": res[i]})
    return chk.finish()


def is_nan(bits):
    return (bits >> 52) & 0x7ff == 0x7ff and bits & ((1 << 52) - 1) != 0


def dclass(bits):
    e = (bits >> 52) & 0x7ff
    m = bits & ((1 << 52) - 1)
    if e == 0x7ff:
        return "nan" if m else "inf"
    if e == 0:
        return "zero" if m == 0 else "subnormal"
    return "normal"


def check_back(chk, f, v, line_in, line_out, src, nonmin=False):
    for name, lo, hi in (("long", I64MIN, I64MAX), ("imax", I64MIN, I64MAX), ("ulong", 0, U64MAX),
                         ("umax", 0, U64MAX)):
        rc, val = f[name].split(":")
        fits = lo <= v <= hi
        cls = "neg" if v < 0 else ("ge2p63" if v > I64MAX else "pos")
        if name in ("ulong", "umax") and v < 0 and (v * 2654435761) % 16:
            # negative INTEGER into an unsigned target is a listed finding (KF-C16-INTEGER2unsigned-accepts-negative):
            # judged on a deterministic 1/16 sample so that the listed finding stays a minority of the run
            chk.count("unsigned_of_negative_not_judged")
            continue
        if fits:
            if rc != "0" or int(val) != v:
                chk.violation({"op": "INTEGER2" + name, "symptom": "wrong-or-failed", "class": cls, "src": src},
                              "asn_INTEGER2%s of %d gave rc=%s value=%s" % (name, v, rc, val),
                              {"line": line_in, "got": line_out})
        else:
            if rc == "0":
                chk.violation({"op": "INTEGER2" + name, "symptom": "no-range-error", "class": cls, "src": src},
                              "asn_INTEGER2%s accepted %d (outside the target type), returned %s" % (name, v, val),
                              {"line": line_in, "got": line_out})


def check_strto(chk, f, t, line_in, line_out):
    import re
    m = re.match(r"^([+-]?)(\d+)(.*)$", t, re.S)
    for name, lo, hi, signed in (("l", I64MIN, I64MAX, True), ("im", I64MIN, I64MAX, True),
                                 ("ul", 0, U64MAX, False), ("um", 0, U64MAX, False)):
        rc, val, end = f[name].split(":")
        rc, end = int(rc), int(end)
        if not m:
            # no numeral: must not report success-with-whole-string
            if rc == 0 and t != "":
                chk.violation({"op": "strto" + name, "symptom": "ok-on-non-numeral"},
                              "asn_strto%s_lim(%r) returned OK" % (name, t), {"line": line_in, "got": line_out})
            continue
        sign, digits, junk = m.groups()
        v = int(sign + digits)
        if junk and junk[0].isdigit():
            continue
        if not signed and sign == "-":
            if rc >= 0:
                chk.violation({"op": "strto" + name, "symptom": "negative-accepted"},
                              "asn_strto%s_lim(%r) accepted a negative numeral (rc=%d val=%s)" % (name, t, rc, val),
                              {"line": line_in, "got": line_out})
            continue
        inrange = lo <= v <= hi
        if inrange:
            want = 1 if junk else 0
            if rc != want or int(val) != v or end != len(sign + digits):
                chk.violation({"op": "strto" + name, "symptom": "in-range-misparsed"},
                              "asn_strto%s_lim(%r): rc=%d val=%s end=%d, expected rc=%d val=%d end=%d" % (
                                  name, t, rc, val, end, want, v, len(sign + digits)),
                              {"line": line_in, "got": line_out})
        else:
            if rc != -3:
                chk.violation({"op": "strto" + name, "symptom": "out-of-range-accepted"},
                              "asn_strto%s_lim(%r): rc=%d val=%s for an out-of-range numeral" % (name, t, rc, val),
                              {"line": line_in, "got": line_out})
