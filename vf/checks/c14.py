"""C14 -- structure lifecycle is leak-free and double-free-free after any
outcome (incl. a failed k-th allocation); RESET yields a structure into which
a later decode behaves as into a fresh one."""
import os, random, re
from .. import build, core, drv, harness
from ..asn import gen, model
from .c04 import mutate, static_flags

SYNS = ["BER", "OER", "UPER", "BXER"]
ENCS = ["DER", "OER", "UPER", "CXER", "BXER"]


def model_items(b, rng, quick):
    from ..asn import shapes, der
    from . import variants
    vals_by_ref = {}
    # ---- stage 1: corpus + clean allocation counts
    cases, meta = [], {}
    cid = 0
    for tname, t in b.mod.types.items():
        for v in (shapes.values4(b.mod, tname, rng, quick) if b.mod.name == "EQ" else b.gen.values(t, 1 if quick else 3)):
            ref = harness.ref_der(b, t, v)
            if ref is None:
                continue
            cid += 1
            cases.append(drv.Case(cid, ["dec s=0 t=%s syn=BER in=%s" % (tname, drv.hx(ref))] +
                                  ["enc s=0 syn=%s" % s for s in ENCS]))
            meta[cid] = (tname, t, ref)
            vals_by_ref[ref] = v
    res = drv.run_parallel(b.exe, cases, confirm=False)
    items = []      # (tname, syn, bytes, nalloc_dec)
    encn = {}       # (tname, ref) -> {enc syn: nalloc}
    for cid, (tname, t, ref) in meta.items():
        r = res.get(cid)
        if r is None or r.status != "ok" or len(r.events) < 6 or r.events[0].get("rc") != "OK":
            continue
        items.append((tname, "BER", ref, int(r.events[0].get("nalloc", 0)), ref))
        encn[(tname, ref)] = {s: (int(e.get("nalloc", 0)), e.get("out"), e.get("rc"), int(e.get("calls", 0) or 0)) for s, e in zip(ENCS, r.events[1:6])}
        # one foreign but valid BER form of the same value (decimal / non-minimal REALs, time notations, explicit DEFAULTs, unknown
        # additions ...): other allocation patterns in the decoders, and the seed of the content-garbage histories below
        try:
            for fam_, vb_ in variants.ber_semantic_variants(rng, b.mod, t, vals_by_ref[ref], der.Encoder(b.mod), 3)[-1:]:
                if vb_ != ref and len(vb_) < 4000:
                    items.append((tname, "BER", vb_, None, ref))
        except Exception:
            pass
        for s, es in (("OER", "OER"), ("UPER", "UPER"), ("BXER", "BXER")):
            e = r.events[1 + ENCS.index(es)]
            if int(e.get("rc", -1)) >= 0 and e.get("out") not in (None, "q", "trunc"):
                items.append((tname, s, drv.unhex(e["out"]), None, ref))
    return items, encn


def real_items(chk, tc, b):
    """the shipped sample PDUs of a shipped specification (vf/realpdu.py) and the library's encodings of them"""
    from .. import realpdu
    items, encn = [], {}
    for spec, pdu, syn, label, data in realpdu.samples(tc, [b.name]):
        r = drv.run_cases(b.exe, [drv.Case(1, ["dec s=0 t=%s syn=%s in=%s" % (pdu, syn, drv.hx(data))] + ["enc s=0 syn=%s" % s for s in ENCS] + ["free s=0"])],
                          confirm=False).get(1)
        if r is None or r.status != "ok" or len(r.events) < 6 or r.events[0].get("rc") != "OK":
            chk.inconcl("shipped sample %s not decoded (C03)" % label)
            continue
        d = r.events[1]
        if int(d.get("rc", -1)) < 0 or d.get("out") in (None, "q", "trunc"):
            continue
        ref = drv.unhex(d["out"])
        items.append((pdu, "BER", ref, int(r.events[0].get("nalloc", 0)), ref))
        encn[(pdu, ref)] = {s: (int(e.get("nalloc", 0)), e.get("out"), e.get("rc"), int(e.get("calls", 0) or 0)) for s, e in zip(ENCS, r.events[1:6])}
        for s in ("OER", "UPER", "BXER"):
            e = r.events[1 + ENCS.index(s)]
            if int(e.get("rc", -1)) >= 0 and e.get("out") not in (None, "q", "trunc"):
                items.append((pdu, s, drv.unhex(e["out"]), None, ref))
        chk.count("real_samples")
    return items, encn


def run(tier, seed):
    chk = core.Check("C14", tier, seed, level="fault_enumeration")
    quick = tier == "quick"
    rng = random.Random(seed)
    chk.rule = ("per generated PDU and value: histories over {decode prefix, decode garbage, RESET, re-decode, encode, encode with failing "
                "callback, FREE_CONTENTS_ONLY, FREE}; and for every decoder (BER,OER,UPER,XER) and encoder (DER,OER,UPER,XER) call the "
                "failure of the k-th allocation for every k up to the number of allocations of the clean call (capped, see counters); "
                "oracle: the allocation ledger (nothing live after FREE, encoders hold nothing on return), ASan, zeroed structure after RESET "
                "and equality of the post-RESET decode with a decode into a fresh structure; the shipped X.509 / LDAP (thorough: UMTS RRC) sample PDUs likewise; distinct = distinct (type, op, fault index / history)")
    chk.assumptions = ["allocation interposed at link time (--wrap) around the libc names the MALLOC/CALLOC/REALLOC/FREEMEM macros expand to",
                       "one allocation failure per call (single fault)"]
    tc = build.toolchain()
    nmod = int(os.environ.get("VERIF_NMOD", 3 if quick else 20))
    kcap = 24 if quick else 120
    prof = gen.profile(max_len=8)
    seeds = [seed * 1000 + 500 + i for i in range(nmod)]
    builds = harness.make_many(tc, seeds[:-1], prof, atoms=9, composites=9)
    # one module with long strings: encodings span several flushes of the PER/OER staging buffers, open-type
    # bodies (extension additions) exceed one flush
    builds += harness.make_many(tc, seeds[-1:], gen.profile(max_len=70), atoms=9, composites=9)
    # fixed shapes: DEFAULTs of every inline kind, character string DEFAULTs included (their generated setters allocate)
    from ..asn import shapes
    builds += harness.make_many(tc, [seed * 1000 + 599], prof, module_fn=lambda g: shapes.build4("EQ"))
    from .. import realpdu
    rn = realpdu.names(quick)
    rb = realpdu.make_many(tc, rn)
    builds += [rb[n_] for n_ in rn]
    sites = set()
    for b in builds:
        if b.exe is None:
            chk.inconcl("module not built (%s)" % b.error[0])
            continue
        if b.mod is None:
            items, encn = real_items(chk, tc, b)
        else:
            items, encn = model_items(b, rng, quick)
        # ---- stage 2: histories and fault enumeration
        cases, meta = [], {}
        cid = 0
        for tname, syn, x, nalloc, ref in items:
            # clean decode count for non-BER comes from a probe inside the case itself (first op)
            n = len(x)
            ks = list(range(1, kcap + 1))
            if b.mod is None and nalloc and nalloc > kcap:
                # a real PDU allocates hundreds of times: the failing allocation is spread over the whole decode
                ks = sorted(set(1 + (i_ * (nalloc - 1)) // (kcap * 2 - 1) for i_ in range(kcap * 2)))
            # A: OOM during decode, then print+free; then RESET path: oom-decode, reset, decode again == fresh
            for k in ks:
                cid += 1
                ops = ["dec s=2 t=%s syn=%s in=%s" % (tname, syn, drv.hx(x)), "enc s=2 syn=DER",   # fresh reference
                       "oom k=%d" % k, "dec s=0 t=%s syn=%s in=%s" % (tname, syn, drv.hx(x)), "prt s=0", "reset s=0",
                       "dec s=0 t=%s syn=%s in=%s" % (tname, syn, drv.hx(x)), "enc s=0 syn=DER", "free s=0"]
                cases.append(drv.Case(cid, ops))
                meta[cid] = ("oom-dec", tname, syn, x, k)
            # B: histories
            hs = []
            if n > 1:
                for k in sorted(set([1, n // 2, n - 1])):
                    hs.append(("prefix-free", ["dec s=0 t=%s syn=%s in=%s chunks=%d rest=0" % (tname, syn, drv.hx(x), k), "free s=0"]))
                    hs.append(("prefix-reset-redecode",
                               ["dec s=2 t=%s syn=%s in=%s" % (tname, syn, drv.hx(x)), "enc s=2 syn=DER",
                                "dec s=0 t=%s syn=%s in=%s chunks=%d rest=0" % (tname, syn, drv.hx(x), k), "reset s=0",
                                "dec s=0 t=%s syn=%s in=%s" % (tname, syn, drv.hx(x)), "enc s=0 syn=DER", "free s=0"]))
            garbage = mutate(rng, x, [x], 3)[-3:]
            if syn == "BER" and x != ref:
                # content garbage in a foreign form: single octets changed, the TLV structure mostly intact
                garbage += [m_ for m_ in mutate(rng, x, [x], 24) if m_[0] in ("flip", "set")][:8]
            for mk, mb in garbage:
                hs.append(("garbage-reset-redecode",
                           ["dec s=2 t=%s syn=%s in=%s" % (tname, syn, drv.hx(x)), "enc s=2 syn=DER",
                            "dec s=0 t=%s syn=%s in=%s" % (tname, syn, drv.hx(mb)), "reset s=0",
                            "dec s=0 t=%s syn=%s in=%s" % (tname, syn, drv.hx(x)), "enc s=0 syn=DER", "free s=0"]))
                hs.append(("garbage-freec", ["dec s=0 t=%s syn=%s in=%s" % (tname, syn, drv.hx(mb)), "freec s=0"]))
            hs.append(("decode-freec", ["dec s=0 t=%s syn=%s in=%s" % (tname, syn, drv.hx(x)), "freec s=0"]))
            hs.append(("decode-twice-into-same", ["dec s=0 t=%s syn=%s in=%s" % (tname, syn, drv.hx(x)), "reset s=0",
                                                  "dec s=0 t=%s syn=%s in=%s" % (tname, syn, drv.hx(x)), "reset s=0",
                                                  "dec s=0 t=%s syn=%s in=%s" % (tname, syn, drv.hx(x)), "free s=0"]))
            for hname, ops in hs:
                cid += 1
                cases.append(drv.Case(cid, ops))
                meta[cid] = ("hist:" + hname, tname, syn, x, 0)
            # C: encoders under OOM and with a failing callback (only once per value: on the BER item)
            if syn == "BER" and x == ref:
                for es in ENCS:
                    ne, eout, erc = encn[(tname, ref)][es][:3]
                    for k in range(1, min(ne, kcap) + 1):
                        cid += 1
                        cases.append(drv.Case(cid, ["dec s=0 t=%s syn=BER in=%s" % (tname, drv.hx(ref)), "oom k=%d" % k,
                                                    "enc s=0 syn=%s" % es, "enc s=0 syn=%s" % es, "free s=0"]))
                        meta[cid] = ("oom-enc", tname, es, ref, k, eout, erc)
                    ncalls = encn[(tname, ref)][es][3]
                    for i in sorted(set([0, 1, 2, 5]) | set(range(min(ncalls + 1, 16)))):
                        cid += 1
                        cases.append(drv.Case(cid, ["dec s=0 t=%s syn=BER in=%s" % (tname, drv.hx(ref)),
                                                    "enc s=0 syn=%s cbfail=%d" % (es, i), "enc s=0 syn=%s" % es, "free s=0"]))
                        meta[cid] = ("cbfail-enc", tname, es, ref, i, eout, erc)
        res = drv.run_parallel(b.exe, cases, per_case_timeout=60)
        casemap = {c.cid: c for c in cases}
        for cid, m in meta.items():
            kind, tname, syn, x, k = m[:5]
            r = res.get(cid)
            t = b.mod.types[tname] if b.mod is not None else None
            flags = static_flags(b.mod, t) if b.mod is not None else {"has_set": b.has_set}
            if r is None or r.status == "notrun":
                chk.inconcl("case not run")
                continue
            replay = {"module": b.text, "pdu": tname, "syntax": syn, "kind": kind, "k": k, "input_hex": x.hex(),
                      "script": casemap[cid].ops}
            chk.evaluations += 1
            ev = r.events
            if r.status in ("crash", "hang"):
                rk, frame = drv.classify_report(r.stderr)
                if r.confirmed is False:
                    chk.inconcl("crash not reproduced on re-run")
                    continue
                nans = len(ev)
                ops = casemap[cid].ops
                dying = ops[nans] if nans < len(ops) else "?"
                # did the injected failure fire before the crash?
                chk.violation({"symptom": r.status, "report": rk, "frame": frame, "history": kind, "syntax": syn,
                               "has_set": flags["has_set"], "dying": dying.split(" ")[0]},
                              "%s (%s in %s) in history %s/%s k=%s of %s, while '%s'" % (r.status, rk, frame, kind, syn, k, tname, dying[:40]),
                              dict(replay, stderr=r.stderr[-3000:]))
                continue
            live = int(r.end.get("live", 0) or 0)
            if kind == "oom-dec":
                fresh, fder, d, p_, rs, d2, e2 = ev[0], ev[1], ev[2], ev[3], ev[4], ev[5], ev[6]
                fired = d.get("oomfired") == "1"
                if not fired:
                    chk.count("oom_index_beyond_allocations")
                    continue
                chk.seen((b.seed, tname, syn, "oom-dec", k))
                sites.add(d.get("oomsite"))
                if d.get("rc") not in ("OK", "WMORE", "FAIL"):
                    chk.violation({"symptom": "illegal-rc", "history": kind, "syntax": syn}, "decoder rc %s under OOM" % d.get("rc"), replay)
                if rs.get("nonzero", "0") != "0":
                    chk.violation({"symptom": "reset-not-zeroed", "history": kind, "syntax": syn},
                                  "ASN_STRUCT_RESET after an allocation failure (k=%d) left %s non-zero bytes in %s" % (k, rs.get("nonzero"), tname), replay)
                if (d2.get("rc"), d2.get("consumed")) != (fresh.get("rc"), fresh.get("consumed")) or e2.get("out") != fder.get("out"):
                    chk.violation({"symptom": "post-reset-decode-differs", "history": kind, "syntax": syn},
                                  "%s decode into a RESET structure (after OOM at k=%d) gives %s/%s, fresh gives %s/%s (or DER differs) for %s" % (
                                      syn, k, d2.get("rc"), d2.get("consumed"), fresh.get("rc"), fresh.get("consumed"), tname), replay)
            elif kind.startswith("hist:"):
                chk.seen((b.seed, tname, syn, kind, x))
                if "reset-redecode" in kind:
                    fresh, fder, d1, rs, d2, e2 = ev[0], ev[1], ev[2], ev[3], ev[4], ev[5]
                    if rs.get("error") != "empty":
                        if rs.get("nonzero", "0") != "0":
                            chk.violation({"symptom": "reset-not-zeroed", "history": kind, "syntax": syn},
                                          "ASN_STRUCT_RESET after a %s decode (%s) left %s non-zero bytes in %s" % (syn, d1.get("rc"), rs.get("nonzero"), tname), replay)
                    if (d2.get("rc"), d2.get("consumed")) != (fresh.get("rc"), fresh.get("consumed")) or e2.get("out") != fder.get("out"):
                        chk.violation({"symptom": "post-reset-decode-differs", "history": kind, "syntax": syn},
                                      "%s decode into a RESET structure (%s) gives %s/%s der=%s, fresh gives %s/%s der=%s for %s" % (
                                          syn, kind, d2.get("rc"), d2.get("consumed"), (e2.get("out") or "")[:40], fresh.get("rc"),
                                          fresh.get("consumed"), (fder.get("out") or "")[:40], tname), replay)
            else:
                eout, erc = m[5], m[6]
                e1, e2 = ev[1], ev[2]
                if kind == "oom-enc":
                    if e1.get("oomfired") != "1":
                        chk.count("oom_index_beyond_allocations")
                        continue
                    sites.add(e1.get("oomsite"))
                chk.seen((b.seed, tname, syn, kind, k, x))
                if int(e1.get("dlive", 0) or 0) != 0:
                    chk.violation({"symptom": "encoder-leaves-allocation", "history": kind, "syntax": syn},
                                  "asn_encode(%s) under %s=%d returned rc=%s holding %s allocation(s) (%s)" % (
                                      syn, "failed allocation k" if kind == "oom-enc" else "callback failure at call", k, e1.get("rc"),
                                      e1.get("dlive"), tname), replay)
                if int(e1.get("rc", -1)) >= 0 and kind == "oom-enc" and e1.get("out") != eout and int(erc) >= 0:
                    chk.violation({"symptom": "encode-ok-but-different-output-under-oom", "history": kind, "syntax": syn},
                                  "asn_encode(%s) reported success under a failed allocation but produced different bytes (%s)" % (syn, tname), replay)
                if kind == "cbfail-enc" and e1.get("cbfailed") == "1" and (e1.get("rc") != "-1" or e1.get("errno") != "5"):
                    chk.violation({"symptom": "callback-failure-not-EIO", "syntax": syn},
                                  "asn_encode(%s) with a failing callback returned rc=%s errno=%s (%s)" % (syn, e1.get("rc"), e1.get("errno"), tname), replay)
                # a second, clean encode must be unaffected by the first failure
                if e2.get("out") != eout and int(erc) >= 0:
                    chk.violation({"symptom": "encode-after-failed-encode-differs", "history": kind, "syntax": syn},
                                  "asn_encode(%s) after a failed attempt produced different bytes (%s)" % (syn, tname), replay)
            if live != 0:
                chk.violation({"symptom": "leak", "history": kind, "syntax": syn, "has_set": flags["has_set"]},
                              "%s allocation(s) (sizes %s) still live after ASN_STRUCT_FREE at the end of history %s/%s k=%s of %s" % (
                                  r.end.get("live"), r.end.get("sizes"), kind, syn, k, tname), dict(replay, events=ev))
            if len(chk.samples) < 6 and kind != "oom-dec":
                chk.sample({"pdu": tname, "history": kind, "syntax": syn, "script": casemap[cid].ops[:6]})
    chk.extra["distinct_allocation_failure_sites"] = len(sites - {None})
    return chk.finish()
