"""C18 -- open types governed by an information object set resolve per the object table."""
import os, random
from .. import build, core, drv, harness
from ..asn import gen, model, der, uper
from ..asn.model import Type, Comp
from .c04 import mutate


class Ios:
    """description of one generated CLASS / object set / frame"""
    pass


# every third module is built with INTEGER_t identifiers and members (the object table then holds octet-string constants)
OPTSETS = [(), (), ("-fwide-types",)]


def wrapper_rewritings(doc):
    """value-preserving rewritings of an XER frame that touch only the surroundings of the open type's wrapper element:
    white space / comments before <value>, after <value>, before </value>, after </value> (X.693 8.1.4/8.1.5)"""
    a = doc.find(b"<value>")
    z = doc.rfind(b"</value>")
    if a < 0 or z < a:
        return []
    pos = [("before-open", a), ("after-open", a + 7), ("before-close", z), ("after-close", z + 8)]
    fill = [("ws", b" "), ("ws", b"\n\t"), ("comment", b"<!-- note -->"), ("comment", b" <!-- <x>1</x> --> ")]
    out = []
    for pn, at in pos:
        for fn, fb in fill:
            out.append((pn + ":" + fn, doc[:at] + fb + doc[at:]))
    return out


def make_ios(g, rng, mod, wide=False):
    ios = Ios()
    names = list(mod.types.keys())
    k = rng.choice([1, 2, 2, 3, 4, 5, 8])
    rows = rng.sample(names, min(k, len(names)))
    ios.idkind = rng.choice(["int", "int", "cint", "cint", "oid"])
    if ios.idkind == "int":
        pool = list(range(-3, 12)) + [127, 128, 255, 256, 32767, 32768, 65535, 100000, 2147483647]
        if wide:
            # asn1c states that it emits INTEGER_t constants for 0..32767 only ("Unsupported value ... range")
            pool = [p_ for p_ in pool if 0 <= p_ <= 32767] + [129, 200, 254, 300]
        ids = rng.sample(pool, len(rows))
        if wide:
            # the one- / two-octet boundary of the emitted constants is always present
            hi = rng.choice([128, 129, 200, 254, 255])
            if hi not in ids:
                ids[0] = hi
            if len(ids) > 1 and 127 not in ids:
                ids[1] = 127
        ios.idtype = Type("INTEGER")
        ios.idtext = "INTEGER"
    elif ios.idkind == "cint":
        ids = rng.sample(range(0, 256), len(rows))
        ios.idtype = Type("INTEGER", value_c=model.Constraint.simple(0, 255))
        ios.idtext = "INTEGER (0..255)"
    else:
        ids = []
        while len(ids) < len(rows):
            o = (1, 3, 6, rng.randrange(0, 300), rng.randrange(0, 100000))
            if o not in ids:
                ids.append(o)
        ios.idtype = Type("OBJECT IDENTIFIER")
        ios.idtext = "OBJECT IDENTIFIER"
    ios.rows = list(zip(ids, rows))
    ios.ext_set = rng.random() < 0.5
    ios.dot = rng.random() < 0.5
    ios.ext_frame = rng.random() < 0.5
    ios.pre = rng.random() < 0.4
    ios.post = rng.random() < 0.4
    ios.via_objects = rng.random() < 0.3
    # no tags on the members at all (legal: nothing but the last member is OPTIONAL); the open type is then ANY-like in BER
    ios.untagged = mod.tagdefault != "AUTOMATIC" and rng.random() < 0.4
    # the open type component is OPTIONAL: asn1c then holds it by pointer (needs its own tag: ANY-like otherwise)
    ios.opt_value = (not ios.untagged) and rng.random() < 0.3
    return ios


def idtext(ios, v):
    if ios.idkind == "oid":
        return "{ " + " ".join(str(x) for x in v) + " }"
    return str(v)


def ios_text(ios, mod):
    auto = mod.tagdefault == "AUTOMATIC"
    members = []
    k = 0

    def tag():
        nonlocal k
        s = "" if auto or ios.untagged else "[%d] " % k
        k += 1
        return s
    if ios.pre:
        members.append("pre %sBOOLEAN" % tag())
    members.append("ident %sFS.&id({FT})" % tag())
    members.append("value %sFS.&Type({FT}{@%sident})%s" % (tag(), "." if ios.dot else "", " OPTIONAL" if ios.opt_value else ""))
    if ios.post:
        members.append("post %sINTEGER OPTIONAL" % tag())
    if ios.ext_frame:
        members.append("...")
    out = ["Frame ::= SEQUENCE {\n    " + ",\n    ".join(members) + "\n}", "",
           "FS ::= CLASS { &id %s UNIQUE, &Type } WITH SYNTAX { &Type IDENTIFIED BY &id }" % ios.idtext, ""]
    if ios.via_objects:
        objs = []
        for i, (idv, tn) in enumerate(ios.rows):
            out.append("obj%d FS ::= { %s IDENTIFIED BY %s }" % (i, tn, idtext(ios, idv)))
            objs.append("obj%d" % i)
        out.append("")
        body = " | ".join(objs)
    elif getattr(ios, "composed", 0) == "mixed" and len(ios.rows) >= 2:
        # a named set and objects written in place, in one union
        h = (len(ios.rows) + 1) // 2
        out.append("FTa FS ::= { %s }" % " | ".join("{ %s IDENTIFIED BY %s }" % (tn, idtext(ios, idv)) for idv, tn in ios.rows[:h]))
        out.append("")
        body = " | ".join(["FTa"] + ["{ %s IDENTIFIED BY %s }" % (tn, idtext(ios, idv)) for idv, tn in ios.rows[h:]])
    elif getattr(ios, "composed", 0) and len(ios.rows) >= 2:
        # the set is the union of two or three named sets
        k = min(ios.composed, len(ios.rows))
        parts = [ios.rows[i::k] for i in range(k)]
        for i, part in enumerate(parts):
            out.append("FT%s FS ::= { %s }" % ("abc"[i], " | ".join("{ %s IDENTIFIED BY %s }" % (tn, idtext(ios, idv)) for idv, tn in part)))
        out.append("")
        body = " | ".join("FT%s" % "abc"[i] for i in range(k))
    else:
        body = " | ".join("{ %s IDENTIFIED BY %s }" % (tn, idtext(ios, idv)) for idv, tn in ios.rows)
    out.append("FT FS ::= { %s%s }" % (body, ", ..." if ios.ext_set else ""))
    out.append("")
    return "\n".join(out)


def shadow_frame(ios, mod, rowtype):
    """reference view of Frame when the object set pairs the identifier with rowtype"""
    comps = []
    k = 0

    def tg(mode=None):
        nonlocal k
        t = ("C", k, mode)
        k += 1
        return None if ios.untagged else t
    import copy
    if ios.pre:
        comps.append(Comp("pre", Type("BOOLEAN", tag=tg())))
    idt = copy.copy(ios.idtype)
    idt.tag = tg()
    comps.append(Comp("ident", idt))
    vc = Comp("value", Type("REF", ref=rowtype, tag=tg("EXPLICIT")), optional=ios.opt_value)
    vc.open = True
    comps.append(vc)
    if ios.post:
        comps.append(Comp("post", Type("INTEGER", tag=tg()), optional=True))
    f = Type("SEQUENCE", comps=comps, ext=[] if ios.ext_frame else None)
    gen._set_module(f, mod)
    return f


def run(tier, seed):
    chk = core.Check("C18", tier, seed)
    quick = tier == "quick"
    rng = random.Random(seed)
    chk.rule = ("generated modules with a CLASS { &id UNIQUE, &Type }, an object set of 1..8 rows (inline or via named objects, extensible or not; identifiers "
                "INTEGER, INTEGER (0..255) or OBJECT IDENTIFIER; row types any generated primitive or constructed type) and Frame ::= SEQUENCE { [pre,] ident, "
                "value ({FT}{@ident} or {@.ident}) [, post] [, ...] } under AUTOMATIC / IMPLICIT / EXPLICIT tagging; for every row values of the row type: "
                "the reference DER (open type under its EXPLICIT tag) must decode RC_OK, CANONICAL-XER must show the paired type's element under <value>, "
                "DER and UPER output must equal the reference, UPER and XER round trips must return the value; mismatches (identifier of row i with the "
                "bytes of row j, in BER and UPER), identifiers without a row, and mutated BER/UPER/XER encodings must end in RC_FAIL/RC_WMORE -- or RC_OK "
                "only when the row type's own decoder accepts the bytes -- without sanitizer report and with nothing left allocated after FREE (ledger); "
                "shapes added to the rows and the frame: a row type that contains the frame again (pointer variant) and frames nested 1..5 deep through it, "
                "built-in types as rows, the same type in two rows, frames without member tags, an OPTIONAL open type (present and absent), every third "
                "module built with -fwide-types (identifiers at the 127/128 boundary); the library's own XER frames with white space / comments around the "
                "wrapper element must read as the unmodified document; one allocation failure at each of the first 8/24 allocations of a frame decode; "
                "distinct = distinct (module, encoding)")
    chk.assumptions = ["where the bytes of row j happen to be a valid encoding of row i's type only memory safety is demanded",
                       "OER is outside the statement of this property"]
    tc = build.toolchain()
    nmod = int(os.environ.get("VERIF_NMOD", 6 if quick else 40))
    nvals = 5 if quick else 8
    prof = gen.profile(max_len=10, set_type=False, real_decimal15=True, wide_plain=True, bit_trailing_one=True)
    root = build.scratch_dir("c18")
    from concurrent.futures import ThreadPoolExecutor

    def build_one(i):
        ms = seed * 1000 + 1800 + i
        g = gen.Gen(ms, prof)
        r2 = random.Random(ms)
        mod = g.module("M", atoms=8, composites=4)
        ios = make_ios(g, r2, mod, wide="-fwide-types" in OPTSETS[i % len(OPTSETS)])
        text = mod.text()
        assert text.rstrip().endswith("END")
        rwtext = ""
        ios.recursive = r2.random() < 0.5
        if ios.recursive:
            # a row type that contains the frame again: asn1c holds this variant of the open type by pointer
            if ios.idkind == "oid":
                nid = (1, 3, 6, 301, 7)
            else:
                nid = next(x for x in ([5, 77, 130, 201, 250] if ios.idkind == "cint" or "-fwide-types" in OPTSETS[i % len(OPTSETS)] else [5, 77, -9, 70000])
                           if x not in [a for a, _ in ios.rows])
            ios.rows.append((nid, "RW"))
            rwtext = "RW ::= SEQUENCE {\n    n INTEGER,\n    inner Frame OPTIONAL\n}\n\n"
            shadow = Type("SEQUENCE", comps=[Comp("n", Type("INTEGER")), Comp("inner", Type("NULL"), optional=True)])
            gen._set_module(shadow, mod)
            mod.add("RW", shadow)       # reference view: values are generated with 'inner' absent
            if mod.tagdefault == "AUTOMATIC":
                for k_, c_ in enumerate(shadow.comps):
                    c_.autotag = k_
        ios.alias = {}

        def newid():
            used = [a for a, _ in ios.rows]
            if ios.idkind == "oid":
                return next(o for o in ((1, 3, 6, 302, k_) for k_ in range(50)) if o not in used)
            small = ios.idkind == "cint" or "-fwide-types" in OPTSETS[i % len(OPTSETS)]
            return next(x for x in ([6, 78, 131, 202, 251, 9, 10] if small else [6, 78, -10, 70001, 9, 10]) if x not in used)
        if r2.random() < 0.4:
            # built-in types given in place: { INTEGER IDENTIFIED BY 6 }; a named alias serves the stand-alone runs
            for kind in r2.sample(["INTEGER", "BOOLEAN", "IA5String", "UTF8String", "REAL", "OCTET STRING", "BIT STRING", "OBJECT IDENTIFIER"], r2.choice([1, 2, 3])):
                ios.rows.append((newid(), kind))
                al = "BI" + kind.replace(" ", "")
                for nm in (kind, al):
                    t_ = Type(kind)
                    gen._set_module(t_, mod)
                    mod.add(nm, t_)
                ios.alias[kind] = al
                rwtext += "%s ::= %s\n\n" % (al, kind)
        if r2.random() < 0.4:
            # a second object with the type of an earlier one: the rows share the member of the generated union
            ios.rows.append((newid(), r2.choice(ios.rows)[1]))
        ios.composed = r2.choice([0, 0, 2, 3, "mixed"]) if not ios.via_objects else 0
        ios.blob = r2.random() < 0.3
        if ios.blob:
            # a row whose complete encoding is exactly n * 16K octets long (and one octet either side)
            ios.rows.append((newid(), "BL"))
            rwtext += "BL ::= OCTET STRING\n\n"
            t_ = Type("OCTET STRING")
            gen._set_module(t_, mod)
            mod.add("BL", t_)
        text = text.rstrip()[:-3] + rwtext + ios_text(ios, mod) + "\nEND\n"
        d = os.path.join(root, "m%d" % i)
        os.makedirs(d, exist_ok=True)
        path = os.path.join(d, "M.asn1")
        open(path, "w").write(text)
        try:
            exe, p = build.compile_module(tc, [path], os.path.join(d, "out"), options=OPTSETS[i % len(OPTSETS)])
        except build.BuildError as e:
            return (ms, g, mod, ios, text, None, ("cc", str(e)[-1500:]))
        if exe is None:
            return (ms, g, mod, ios, text, None, ("asn1c", (p.stderr or b"").decode("latin-1")[-1500:]))
        return (ms, g, mod, ios, text, exe, None)

    tc.tool("asn1c", "asan"); tc.skel("asan"); tc.driver_obj("vdriver", "asan"); tc.driver_obj("ledger", "asan")
    with ThreadPoolExecutor(6) as ex:
        built = list(ex.map(build_one, range(nmod)))
    for ms, g, mod, ios, text, exe, err in built:
        idk = ios.idkind
        if exe is None:
            el = "\n".join(l for l in err[1].splitlines() if "runtime error" not in l)
            if err[0] == "asn1c" and idk == "oid":
                chk.evaluations += 1
                chk.violation({"symptom": "module-rejected", "idkind": idk, "stage": err[0]},
                              "asn1c does not generate code for an object set with OBJECT IDENTIFIER identifiers: %s" % " ".join(el.split())[-200:],
                              {"module": text, "stderr": el[-1500:]})
            else:
                chk.inconcl("module not built (%s)" % err[0])
                chk.count("unbuilt_%s_%s" % (err[0], idk))
                if os.environ.get("VERIF_SHOWBUILD"):
                    print("UNBUILT", err[0], el[-1500:], "\n", text[text.find("RW ::=") if "RW ::=" in text else text.find("Frame ::="):])
            continue
        enc = der.Encoder(mod)
        frames = {tn: shadow_frame(ios, mod, tn) for idv, tn in ios.rows}
        cases, meta = [], {}
        cid = 0
        pool = []
        allvals = {}
        for idv, tn in ios.rows:
            if tn == "RW":
                allvals[tn] = [{"n": v} for v in (0, -1, 127, 300, -70000, 1 << 40)][:nvals]
                continue
            if tn == "BL":
                # UPER body = 2 length octets + data below 16K; 3 + data from 16K on
                allvals[tn] = [bytes((i * 5 + 1) & 0xff for i in range(n_)) for n_ in ((16382, 16381, 32765) if quick else (16382, 16381, 16383, 32765, 32764, 49148))]
                continue
            allvals[tn] = g.values(mod.types[tn], nvals)

        def fval(idv, v):
            fv = {"ident": idv, "value": v}
            if ios.pre:
                fv["pre"] = rng.random() < 0.5
            if ios.post and rng.random() < 0.5:
                fv["post"] = rng.choice([0, -1, 300, 1 << 40])
            return fv
        unknown_ids = {"int": [-77, 99999, 13], "cint": [x for x in (0, 1, 77, 254, 255) if x not in [i for i, _ in ios.rows]][:3],
                       "oid": [(1, 3, 6, 1), (2, 5, 4, 3)]}[idk]
        for idv, tn in ios.rows:
            f = frames[tn]
            for v in allvals[tn]:
                fv = fval(idv, v)
                try:
                    ref = enc.encode(f, fv)
                except der.Unsupported:
                    continue
                pool.append(ref)
                cid += 1
                inner0 = enc.encode(mod.types[tn], v)
                cases.append(drv.Case(cid, ["dec s=0 t=Frame syn=BER in=%s" % drv.hx(ref), "enc s=0 syn=DER", "enc s=0 syn=CXER",
                                            "enc s=0 syn=UPER reg=1", "dec s=1 t=Frame syn=UPER inreg=1", "enc s=1 syn=DER", "free s=1",
                                            "enc s=0 syn=BXER reg=2", "dec s=1 t=Frame syn=BXER inreg=2", "enc s=1 syn=DER", "free s=1",
                                            "enc s=0 syn=CXER reg=3", "dec s=1 t=Frame syn=CXER inreg=3", "enc s=1 syn=DER", "free s=1",
                                            "chk s=0 eb=64", "prt s=0", "free s=0",
                                            # the row type on its own: what this library makes of the value outside an open type
                                            "dec s=2 t=%s syn=BER in=%s" % (ios.alias.get(tn, tn), drv.hx(inner0)), "enc s=2 syn=UPER", "enc s=2 syn=UPER reg=4 quiet=1",
                                            "dec s=3 t=%s syn=UPER inreg=4" % ios.alias.get(tn, tn), "enc s=3 syn=DER", "free s=3",
                                            "enc s=2 syn=CXER reg=5 quiet=1", "dec s=3 t=%s syn=CXER inreg=5" % ios.alias.get(tn, tn), "enc s=3 syn=DER", "free s=3", "free s=2"]))
                meta[cid] = ("match", tn, idv, fv, ref, (f, inner0), None)
                # mismatches: identifier of this row, bytes of another row's value
                for idj, tj in ios.rows:
                    if tj == tn or not allvals[tj]:
                        continue
                    vj = rng.choice(allvals[tj])
                    fj = dict(fv, value=vj)
                    try:
                        mref = enc.encode(frames[tj], fj)
                        inner = enc.encode(mod.types[tj], vj)
                    except der.Unsupported:
                        continue
                    cid += 1
                    # does row i's own decoder accept the bytes of row j ?  (asked of the same library, standalone)
                    cases.append(drv.Case(cid, ["dec s=1 t=%s syn=BER in=%s" % (ios.alias.get(tn, tn), drv.hx(inner)), "free s=1",
                                                "dec s=0 t=Frame syn=BER in=%s" % drv.hx(mref), "enc s=0 syn=DER quiet=1", "prt s=0", "free s=0"]))
                    meta[cid] = ("mismatch-BER", tn, idv, fj, mref, None, tj)
                    try:
                        muref = uper.encode(mod, frames[tj], fj)
                    except Exception:
                        muref = None
                    if muref:
                        cid += 1
                        cases.append(drv.Case(cid, ["dec s=0 t=Frame syn=UPER in=%s" % drv.hx(muref), "enc s=0 syn=DER quiet=1", "prt s=0", "free s=0"]))
                        meta[cid] = ("mismatch-UPER", tn, idv, fj, muref, None, tj)
                # identifiers without a row
                for uid in unknown_ids[:2]:
                    fu = dict(fv, ident=uid)
                    try:
                        uenc = enc.encode(f, fu)
                    except (der.Unsupported, KeyError, ValueError, OverflowError):
                        continue
                    cid += 1
                    cases.append(drv.Case(cid, ["dec s=0 t=Frame syn=BER in=%s" % drv.hx(uenc), "enc s=0 syn=DER quiet=1", "prt s=0", "free s=0"]))
                    meta[cid] = ("unknown-id-BER", tn, uid, fu, uenc, None, None)
                    try:
                        uu = uper.encode(mod, f, fu)
                    except Exception:
                        uu = None
                    if uu:
                        cid += 1
                        cases.append(drv.Case(cid, ["dec s=0 t=Frame syn=UPER in=%s" % drv.hx(uu), "enc s=0 syn=DER quiet=1", "prt s=0", "free s=0"]))
                        meta[cid] = ("unknown-id-UPER", tn, uid, fu, uu, None, None)
        if ios.opt_value:
            for idv, tn in ios.rows:
                fa = fval(idv, None)
                del fa["value"]
                try:
                    aref = enc.encode(frames[tn], fa)
                except der.Unsupported:
                    continue
                cid += 1
                cases.append(drv.Case(cid, ["dec s=0 t=Frame syn=BER in=%s" % drv.hx(aref), "enc s=0 syn=DER", "enc s=0 syn=CXER",
                                            "enc s=0 syn=UPER reg=1", "dec s=1 t=Frame syn=UPER inreg=1", "enc s=1 syn=DER", "free s=1",
                                            "enc s=0 syn=CXER reg=3", "dec s=1 t=Frame syn=CXER inreg=3", "enc s=1 syn=DER", "free s=1",
                                            "chk s=0 eb=64", "prt s=0", "free s=0"]))
                meta[cid] = ("absent", tn, idv, fa, aref, None, None)
        res = drv.run_parallel(exe, cases)
        # second round: mutations of the library's and the reference's encodings
        cases2, meta2 = [], {}
        for cid, m in meta.items():
            if m[0] != "match":
                continue
            r = res.get(cid)
            if r is None or r.status != "ok" or len(r.events) < 12:
                continue
            srcs = [("BER", m[4])]
            if r.events[3].get("out") not in (None, "-"):
                srcs.append(("UPER", drv.unhex(r.events[3]["out"])))
            # the CXER text is not echoed for reg= encodes: take it from the plain CXER encode
            if r.events[2].get("out") not in (None, "-"):
                srcs.append(("CXER", drv.unhex(r.events[2]["out"])))
            # one allocation failure at every allocation of the decode (bounded), for each syntax
            for syn, x in srcs:
                if quick and rng.random() < 0.5:
                    continue
                for k in range(1, (8 if quick else 24) + 1):
                    cid2 = len(cases2) + 1
                    cases2.append(drv.Case(cid2, ["oom k=%d" % k, "dec s=0 t=Frame syn=%s in=%s" % (syn, drv.hx(x)), "prt s=0", "enc s=0 syn=DER quiet=1", "free s=0"]))
                    meta2[cid2] = ("oom-" + syn, m[1], "k=%d" % k, x)
            for syn, x in srcs:
                muts = mutate(rng, x, pool, 6 if quick else 20)
                muts = rng.sample(muts, min(len(muts), 10 if quick else 40))
                for mk, mb in muts:
                    cid2 = len(cases2) + 1
                    cases2.append(drv.Case(cid2, ["dec s=0 t=Frame syn=%s in=%s" % (syn, drv.hx(mb)), "prt s=0", "chk s=0 eb=64",
                                                   "enc s=0 syn=DER quiet=1", "enc s=0 syn=UPER quiet=1", "enc s=0 syn=CXER quiet=1", "free s=0"]))
                    meta2[cid2] = ("mutant-" + syn, m[1], mk, mb)
        # third round: the library's own XER frames with white space / comments around the wrapper element
        cases3, meta3 = [], {}
        for cid, m in meta.items():
            if m[0] != "match":
                continue
            r = res.get(cid)
            if r is None or r.status != "ok" or len(r.events) < 15 or r.events[2].get("out") in (None, "-"):
                continue
            if r.events[12].get("rc") != "OK" or r.events[13].get("out") in (None, "-"):
                continue        # the unmodified document is not read back: judged in the first round
            own = drv.unhex(r.events[2]["out"])
            rws = wrapper_rewritings(own)
            for fam, doc in (rws if not quick else rng.sample(rws, min(len(rws), 6))):
                cid3 = len(cases3) + 1
                cases3.append(drv.Case(cid3, ["dec s=0 t=Frame syn=CXER in=%s" % drv.hx(doc), "enc s=0 syn=DER", "free s=0"]))
                meta3[cid3] = (m[1], fam, doc, r.events[13]["out"])
        # ... and frames nested through the recursive row type, spliced from the library's own XER documents
        owndocs = []
        for cid, m in meta.items():
            r = res.get(cid)
            if m[0] == "match" and r is not None and r.status == "ok" and len(r.events) >= 15 and r.events[2].get("out") not in (None, "-") \
                    and r.events[12].get("rc") == "OK" and r.events[13].get("out") == m[4].hex():
                owndocs.append((m[1], drv.unhex(r.events[2]["out"])))
        cases4, meta4 = [], {}
        outer = [d_ for tn_, d_ in owndocs if tn_ == "RW"]
        if outer:
            for tn_, d_ in (owndocs if not quick else rng.sample(owndocs, min(len(owndocs), 12))):
                if not (d_.startswith(b"<Frame>") and d_.endswith(b"</Frame>")):
                    continue
                o = rng.choice(outer)
                at = o.find(b"</n>")
                if at < 0:
                    continue
                depth = rng.choice([1, 1, 2, 5])
                doc = d_
                for _ in range(depth):
                    doc = o[:at + 4] + b"<inner>" + doc[len(b"<Frame>"):-len(b"</Frame>")] + b"</inner>" + o[at + 4:]
                cid4 = len(cases4) + 1
                cases4.append(drv.Case(cid4, ["dec s=0 t=Frame syn=CXER in=%s" % drv.hx(doc), "enc s=0 syn=DER reg=1", "dec s=1 t=Frame syn=BER inreg=1",
                                              "enc s=1 syn=CXER", "free s=1", "prt s=0", "chk s=0 eb=64", "free s=0",
                                              # the same DER cut short: the half-built inner frames must be released
                                              "enc s=0 syn=DER quiet=1"]))
                meta4[cid4] = (tn_, depth, doc)
        res4 = drv.run_parallel(exe, cases4)
        # the same frames fed in pieces (BER and XER are documented as restartable): two pieces split at positions spread
        # over the encoding, and small pieces throughout; the final result must be that of the one-shot decode
        cases5, meta5 = [], {}
        for cid, m in meta.items():
            if m[0] != "match":
                continue
            r = res.get(cid)
            if r is None or r.status != "ok" or len(r.events) < 15 or r.events[0].get("rc") != "OK" or r.events[1].get("out") != m[4].hex():
                continue
            srcs = [("BER", m[4])]
            if r.events[2].get("out") not in (None, "-") and r.events[12].get("rc") == "OK" and r.events[13].get("out") == m[4].hex():
                srcs.append(("CXER", drv.unhex(r.events[2]["out"])))
            for syn, x in srcs:
                n = len(x)
                if n < 3 or n > 4000 or (quick and rng.random() < 0.6):
                    continue
                cuts = sorted(set([1, n - 1] + [max(1, min(n - 1, (n * j) // 9)) for j in range(1, 9)]))
                scheds = [str(k) for k in cuts] + [",".join(["3"] * min(n, 300)), ",".join(["1"] * min(n, 300))]
                ops = []
                for ch in scheds:
                    ops += ["dec s=0 t=Frame syn=%s in=%s chunks=%s" % (syn, drv.hx(x), ch), "enc s=0 syn=DER", "free s=0"]
                cid5 = len(cases5) + 1
                cases5.append(drv.Case(cid5, ops))
                meta5[cid5] = (m[1], syn, x, scheds, m[4].hex())
        res5 = drv.run_parallel(exe, cases5)
        res3 = drv.run_parallel(exe, cases3)
        res2 = drv.run_parallel(exe, cases2)

        def safety(r, what, key, replay):
            """-> True when the case ended in a crash/hang/leak (reported)"""
            if r.status in ("crash", "hang"):
                if r.confirmed is False:
                    chk.inconcl("crash not reproduced on re-run")
                    return True
                kind, frame = drv.classify_report(r.stderr)
                chk.violation(dict(key, symptom=r.status, report=kind, frame=frame), "%s: %s (%s in %s)" % (what, r.status, kind, frame),
                              dict(replay, stderr=r.stderr[-2500:]))
                return True
            if int(r.end.get("live", 0) or 0) != 0:
                chk.violation(dict(key, symptom="leak"), "%s: %s allocation(s) (%s bytes) still live after FREE" % (what, r.end.get("live"), r.end.get("livebytes")),
                              dict(replay, events=r.events))
                return True
            return False

        for cid, (kind, tn, idv, fv, x, uref, tj) in meta.items():
            r = res.get(cid)
            if r is None or r.status == "notrun":
                chk.inconcl("case not run")
                continue
            chk.evaluations += 1
            chk.seen((ms, kind, x))
            rk = mod.resolve(mod.types[tn]).kind
            key = {"case": kind, "idkind": idk, "rowkind": rk, "ext_set": ios.ext_set, "composition": str(ios.composed)}
            if ios.composed == "mixed":
                key["row_in_place"] = (idv, tn) in ios.rows[(len(ios.rows) + 1) // 2:]
            replay = {"module": text, "row_type": tn, "ident": str(idv), "input_hex": x.hex(), "value": gen.value_repr(fv, 800), "other_row": tj}
            what = "Frame(ident=%s -> %s)%s" % (idtext(ios, idv), tn, (" carrying a value of %s" % tj) if tj else "")
            if safety(r, what, key, replay):
                continue
            ev = r.events
            if kind == "match":
                d = ev[0]
                if d.get("rc") != "OK" or int(d.get("consumed", -1)) != len(x):
                    chk.violation(dict(key, symptom="decode-" + str(d.get("rc"))), "%s: reference DER not accepted: %s consumed=%s/%d" % (
                        what, d.get("rc"), d.get("consumed"), len(x)), replay)
                    continue
                if ev[1].get("out") != x.hex():
                    chk.violation(dict(key, symptom="der-differs"), "%s: DER re-encoding %s differs from the reference %s" % (
                        what, (ev[1].get("out") or "-")[:60], x.hex()[:60]), replay)
                    continue
                cx = drv.unhex(ev[2].get("out")) if ev[2].get("out") not in (None, "-") else b""
                if ("<value><%s" % tn.replace(" ", "_")).encode() not in cx:
                    chk.violation(dict(key, symptom="wrong-row-selected"), "%s: CANONICAL-XER does not show <%s> under <value>: %s" % (
                        what, tn, cx[:160].decode("latin-1")), replay)
                    continue
                f, inner0 = uref
                alone = ev[18:29]
                alone_ok = {"UPER": False, "BXER": False, "CXER": False}
                if len(alone) >= 10 and alone[0].get("rc") == "OK":
                    su = alone[1].get("out")
                    alone_ok["UPER"] = alone[1].get("rc") not in ("-1", None) and alone[3].get("rc") == "OK" and alone[4].get("out") == inner0.hex()
                    alone_ok["CXER"] = alone_ok["BXER"] = alone[7].get("rc") == "OK" and alone[8].get("out") == inner0.hex()
                    if alone[1].get("rc") not in ("-1", None) and su not in (None,):
                        # expected UPER of the frame: reference framing around the row type's own complete encoding
                        raw = drv.unhex(su) if su != "-" else b"\x00"
                        try:
                            exp = uper.encode(mod, f, dict(fv, value=uper.RawOpen(raw)))
                        except Exception:
                            exp = None
                        if exp is not None:
                            chk.evaluations += 1
                            if ev[3].get("out") != exp.hex():
                                chk.violation(dict(key, symptom="uper-bytes-differ", syntax="UPER"),
                                              "%s: UPER %s; X.691 framing (identifier, length, complete encoding %s of the row value) gives %s" % (
                                                  what, (ev[3].get("out") or "-")[:60], raw.hex()[:30], exp.hex()[:60]),
                                              dict(replay, expected=exp.hex(), observed=ev[3].get("out")))
                            else:
                                chk.count("uper_bytes_ok")
                for syn, di, ei in (("UPER", 4, 5), ("BXER", 8, 9), ("CXER", 12, 13)):
                    if not alone_ok[syn]:
                        chk.count("row_type_alone_does_not_roundtrip_" + syn)     # the row type's own codec defect (C01), not the open type's
                        continue
                    chk.evaluations += 1
                    if ev[di - 1].get("rc") in ("-1", None):
                        chk.violation(dict(key, symptom="encode-failed", syntax=syn), "%s: %s encoding fails (errno %s)" % (what, syn, ev[di - 1].get("errno")), replay)
                    elif ev[di].get("rc") != "OK" or ev[ei].get("out") != x.hex():
                        chk.violation(dict(key, symptom="roundtrip", syntax=syn), "%s: %s round trip: decode %s, DER %s" % (
                            what, syn, ev[di].get("rc"), "equal" if ev[ei].get("out") == x.hex() else "differs"), replay)
                    else:
                        chk.count("roundtrip_ok_" + syn)
                if ev[15].get("rc") not in ("0",):
                    chk.count("constraint_check_nonzero")
                if len(chk.samples) < 6:
                    chk.sample({"frame": ios_text(ios, mod)[:300], "row": tn, "ident": str(idv), "der": x.hex()[:80], "uper": (ev[3].get("out") or "")[:60],
                                "cxer": cx[:120].decode("latin-1")})
            elif kind == "absent":
                if len(ev) < 10 or ev[0].get("rc") != "OK" or ev[1].get("out") != x.hex():
                    chk.violation(dict(key, symptom="absent-open-type"), "%s without the OPTIONAL open type: decode %s, DER %s, reference %s" % (
                        what, ev[0].get("rc") if ev else "-", (ev[1].get("out") if len(ev) > 1 else "-") or "-", x.hex()), replay)
                elif b"<value>" in drv.unhex(ev[2].get("out") or ""):
                    chk.violation(dict(key, symptom="absent-open-type-shown"), "%s without the open type: XER shows a <value> element" % what, replay)
                else:
                    for syn, di, ei in (("UPER", 4, 5), ("CXER", 8, 9)):
                        chk.evaluations += 1
                        if ev[di - 1].get("rc") in ("-1", None) or ev[di].get("rc") != "OK" or ev[ei].get("out") != x.hex():
                            chk.violation(dict(key, symptom="absent-roundtrip", syntax=syn), "%s without the open type: %s round trip: encode %s, decode %s, DER %s" % (
                                what, syn, ev[di - 1].get("rc"), ev[di].get("rc"), "equal" if ev[ei].get("out") == x.hex() else "differs"), replay)
                        else:
                            chk.count("absent_roundtrip_ok_" + syn)
            elif kind == "mismatch-BER":
                alone, d = ev[0], ev[2]
                if d.get("rc") == "OK" and alone.get("rc") != "OK":
                    chk.violation(dict(key, symptom="mismatch-accepted"), "%s: decoder answers RC_OK although %s's own decoder rejects these bytes (%s)" % (
                        what, tn, alone.get("rc")), replay)
                else:
                    chk.count("mismatch_" + str(d.get("rc")))
            elif kind == "mismatch-UPER":
                chk.count("mismatch_uper_" + str(ev[0].get("rc")))
            elif kind.startswith("unknown-id"):
                d = ev[0]
                if d.get("rc") == "OK":
                    chk.violation(dict(key, symptom="unknown-identifier-accepted", syntax=kind.split("-")[-1]),
                                  "Frame with identifier %s, which has no row in the %sobject set, is decoded RC_OK (%s)" % (
                                      idtext(ios, idv), "extensible " if ios.ext_set else "", kind), replay)
                else:
                    chk.count("unknown_id_" + str(d.get("rc")))
        for cid2, (kind, tn, mk, mb) in meta2.items():
            r = res2.get(cid2)
            if r is None or r.status == "notrun":
                chk.inconcl("case not run")
                continue
            chk.evaluations += 1
            chk.seen((ms, kind, mb))
            rk = mod.resolve(mod.types[tn]).kind
            key = {"case": kind, "idkind": idk, "rowkind": rk, "mutation": mk.split("+")[0]}
            if safety(r, "%s (%s) of a Frame carrying %s" % (kind, mk, tn), key, {"module": text, "input_hex": mb.hex(), "syntax": kind.split("-")[1]}):
                continue
            d = r.events[0] if r.events else {}
            if d.get("rc") not in ("OK", "WMORE", "FAIL"):
                chk.violation(dict(key, symptom="illegal-rc"), "decoder returned %s" % d.get("rc"), {"module": text, "input_hex": mb.hex()})
            chk.count("mutant_rc_" + str(d.get("rc")))
        for cid3, (tn, fam, doc, der0) in meta3.items():
            r = res3.get(cid3)
            if r is None or r.status == "notrun":
                chk.inconcl("case not run")
                continue
            chk.evaluations += 1
            chk.seen((ms, "xer-wrapper", doc))
            rk = mod.resolve(mod.types[tn]).kind
            key = {"case": "xer-wrapper", "idkind": idk, "rowkind": rk, "place": fam.split(":")[0], "fill": fam.split(":")[1]}
            replay = {"module": text, "row_type": tn, "input_hex": doc.hex(), "syntax": "CXER", "document": doc.decode("latin-1")[:1500]}
            if safety(r, "XER frame carrying %s, %s" % (tn, fam), key, replay):
                continue
            d = r.events[0] if r.events else {}
            e = r.events[1] if len(r.events) > 1 else {}
            if d.get("rc") != "OK" or e.get("out") != der0:
                chk.violation(dict(key, symptom="xer-rewriting-read-differently"),
                              "XER frame carrying %s with %s %s the open type's wrapper: decode %s, DER %s; the unmodified document decodes OK to %s" % (
                                  tn, "a comment" if "comment" in fam else "white space", fam.split(":")[0].replace("-", " ") + " tag of",
                                  d.get("rc"), (e.get("out") or "-")[:40], der0[:40]), replay)
            else:
                chk.count("xer_wrapper_rewriting_ok")
        for cid5, (tn, syn, x, scheds, der0) in meta5.items():
            r = res5.get(cid5)
            if r is None or r.status == "notrun":
                chk.inconcl("case not run")
                continue
            rk = mod.resolve(mod.types[tn]).kind
            key = {"case": "chunked", "idkind": idk, "rowkind": rk, "syntax": syn}
            replay = {"module": text, "row_type": tn, "input_hex": x.hex(), "syntax": syn}
            chk.evaluations += 1
            if safety(r, "%s frame carrying %s fed in pieces" % (syn, tn), key, replay):
                continue
            for j, ch in enumerate(scheds):
                chk.evaluations += 1
                chk.seen((ms, "chunked", syn, x, ch))
                d = r.events[3 * j] if 3 * j < len(r.events) else {}
                e = r.events[3 * j + 1] if 3 * j + 1 < len(r.events) else {}
                if d.get("rc") != "OK" or e.get("out") != der0:
                    chk.violation(dict(key, symptom="chunked-differs-from-one-shot"),
                                  "%s frame carrying %s (%d bytes) fed in pieces of %s: final %s, DER %s; the one-shot decode is OK" % (
                                      syn, tn, len(x), ch[:30], d.get("rc"), "equal" if e.get("out") == der0 else "differs"),
                                  dict(replay, schedule=ch, trace=d.get("trace")))
                    break
                chk.count("chunked_ok_" + syn)
        for cid4, (tn, depth, doc) in meta4.items():
            r = res4.get(cid4)
            if r is None or r.status == "notrun":
                chk.inconcl("case not run")
                continue
            chk.evaluations += 1
            chk.seen((ms, "nested", doc))
            rk = mod.resolve(mod.types[tn]).kind
            key = {"case": "nested-frames", "idkind": idk, "rowkind": rk, "depth": depth}
            replay = {"module": text, "row_type": tn, "input_hex": doc.hex(), "syntax": "CXER", "document": doc.decode("latin-1")[:2000]}
            if safety(r, "%d frame(s) nested through RW around a frame carrying %s" % (depth, tn), key, replay):
                continue
            ev = r.events
            if len(ev) < 4 or ev[0].get("rc") != "OK":
                chk.violation(dict(key, symptom="nested-not-decoded"), "a frame carrying %s nested %d deep through the recursive row type RW is not decoded from XER: %s" % (
                    tn, depth, ev[0].get("rc") if ev else "-"), replay)
            elif ev[1].get("rc") in ("-1", None) or ev[2].get("rc") != "OK" or drv.unhex(ev[3].get("out") or "") != doc:
                chk.violation(dict(key, symptom="nested-roundtrip"), "a frame carrying %s nested %d deep through RW: XER -> DER (%s) -> decode (%s) -> XER %s the document" % (
                    tn, depth, ev[1].get("rc"), ev[2].get("rc"), "equals" if drv.unhex(ev[3].get("out") or "") == doc else "differs from"), replay)
            else:
                chk.count("nested_frames_roundtrip_ok")
        import shutil
        shutil.rmtree(os.path.dirname(os.path.dirname(exe)), ignore_errors=True)
    return chk.finish()
