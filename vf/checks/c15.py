"""C15 -- decoding uses bounded stack (RC_FAIL instead of stack exhaustion on deep
nesting, with the default or a caller-supplied limit) and heap proportional to
the input (no bombs from length prefixes or zero-width elements)."""
import os, random
from .. import build, core, drv, harness
from ..asn import model

MODULE = """M DEFINITIONS EXPLICIT TAGS ::= BEGIN
R ::= SEQUENCE { next R OPTIONAL, v INTEGER OPTIONAL }
C ::= CHOICE { a [0] C, b [1] NULL }
L ::= SEQUENCE OF L
S ::= SET OF S
T ::= SET { s [0] T OPTIONAL }
SS ::= SET OF SSI
SSI ::= SET OF NULL
O ::= OCTET STRING
B ::= BIT STRING
U ::= UTF8String
I ::= IA5String (SIZE(0..100))
NL ::= SEQUENCE OF NULL
SE ::= SEQUENCE OF SEI
SEI ::= SEQUENCE { }
I5 ::= SEQUENCE OF INTEGER (5)
NS ::= SET OF NULL
OS ::= SEQUENCE OF OCTET STRING (SIZE(0))
X ::= SEQUENCE { a INTEGER, ..., b R OPTIONAL }
XS ::= SET { a [0] INTEGER, ... }
XC ::= CHOICE { a [0] INTEGER, ... }
A ::= ANY
W ::= SEQUENCE { a INTEGER, any ANY OPTIONAL }
PX ::= SEQUENCE { id INTEGER (0..255), ..., blob OCTET STRING }
END
"""
STACK = 256 * 1024      # thread stack: far above the 30000-byte default limit, far below unbounded recursion


def deep_inputs(depths):
    """-> list of (pdu, syntax, family, depth, bytes)"""
    out = []
    for d in depths:
        # BER, indefinite lengths
        out.append(("L", "BER", "nest-indef", d, b"\x30\x80" * d + b"\0\0" * d))
        out.append(("S", "BER", "nest-indef", d, b"\x31\x80" * d + b"\0\0" * d))
        out.append(("R", "BER", "nest-indef", d, b"\x30\x80" * d + b"\0\0" * d))
        out.append(("T", "BER", "nest-indef", d, b"\x31\x80" + b"\xa0\x80\x31\x80" * d + b"\0\0\0\0" * d + b"\0\0"))
        out.append(("C", "BER", "nest-indef", d, b"\xa0\x80" * d + b"\x81\x00" + b"\0\0" * d))
        out.append(("O", "BER", "nest-constructed-string", d, b"\x24\x80" * d + b"\x04\x01A" + b"\0\0" * d))
        out.append(("B", "BER", "nest-constructed-string", d, b"\x23\x80" * d + b"\x03\x02\x00A" + b"\0\0" * d))
        out.append(("L", "BER", "nest-unterminated", d, b"\x30\x80" * d))
        # nesting inside what the decoder only skips: unknown extension additions and ANY
        nest = b"\xa5\x80" * d + b"\0\0" * d
        out.append(("X", "BER", "nest-in-unknown-extension", d, b"\x30\x80\x02\x01\x05" + nest + b"\0\0"))
        out.append(("X", "BER", "nest-in-unknown-extension-unterminated", d, b"\x30\x80\x02\x01\x05" + b"\xa5\x80" * d))
        out.append(("XS", "BER", "nest-in-unknown-extension", d, b"\x31\x80\xa0\x03\x02\x01\x05" + nest + b"\0\0"))
        out.append(("XC", "BER", "nest-in-unknown-extension", d, nest))
        out.append(("A", "BER", "nest-in-any", d, nest))
        out.append(("W", "BER", "nest-in-any", d, b"\x30\x80\x02\x01\x05" + nest + b"\0\0"))
        out.append(("X", "BER", "nest-in-unknown-extension-mixed", d, b"\x30\x80\x02\x01\x05" + b"\xa5\x80\x30\x80" * (d // 2) + b"\0\0\0\0" * (d // 2) + b"\0\0"))
        if d <= 3000:
            inner = b""
            for _ in range(d):
                n = len(inner)
                ln = bytes([n]) if n < 128 else bytes([0x80 | ((n.bit_length() + 7) // 8)]) + n.to_bytes((n.bit_length() + 7) // 8, "big")
                inner = b"\x30" + ln + inner
            out.append(("L", "BER", "nest-definite", d, inner))
            out.append(("R", "BER", "nest-definite", d, inner))
        # XER
        out.append(("L", "BXER", "nest", d, b"<L>" * d + b"</L>" * d))
        out.append(("S", "BXER", "nest", d, b"<S>" * d + b"</S>" * d))
        out.append(("R", "BXER", "nest", d, b"<R>" + b"<next>" * d + b"</next>" * d + b"</R>"))
        out.append(("C", "BXER", "nest", d, b"<C>" + b"<a>" * d + b"<b/>" + b"</a>" * d + b"</C>"))
        out.append(("T", "BXER", "nest", d, b"<T>" + b"<s>" * d + b"</s>" * d + b"</T>"))
        out.append(("L", "BXER", "nest-unterminated", d, b"<L>" * d))
        # UPER
        out.append(("L", "UPER", "nest", d, b"\x01" * d + b"\x00"))
        out.append(("C", "UPER", "nest", d, b"\x00" * (d // 8 + 1)))
        out.append(("R", "UPER", "nest", d, b"\xaa" * (d // 4 + 1)))
        # OER
        out.append(("L", "OER", "nest", d, b"\x01\x01" * d + b"\x01\x00"))
        out.append(("C", "OER", "nest", d, b"\x80" * d + b"\x81"))
        out.append(("R", "OER", "nest", d, b"\x80" * d + b"\x00"))
        out.append(("X", "OER", "nest-in-extension", d, b"\x80\x01\x05\x02\x07\x80" + b"\x82\xff\xff" + b"\x80" * d))
    return out


def bomb_inputs():
    out = []
    # maximal length prefixes with nothing (or little) behind them
    for pdu, tag in (("O", 0x04), ("B", 0x03), ("U", 0x0c), ("I", 0x16), ("L", 0x30), ("NL", 0x30), ("SS", 0x31)):
        for ln in (b"\x84\x7f\xff\xff\xff", b"\x84\xff\xff\xff\xff", b"\x88\x7f" + b"\xff" * 7, b"\x83\xff\xff\xff", b"\x82\xff\xff"):
            out.append((pdu, "BER", "length-prefix", 0, bytes([tag]) + ln + b"A" * 8))
    for pdu in ("O", "B", "U", "OS", "NL", "L", "SS", "I5", "SE", "NS"):
        for x in (b"\x84\x7f\xff\xff\xff", b"\x84\xff\xff\xff\xff", b"\x88" + b"\x7f" + b"\xff" * 7, b"\x83\xff\xff\xff",
                  b"\x04\x7f\xff\xff\xff", b"\x04\xff\xff\xff\xff", b"\x02\xff\xff", b"\x03\x0f\xff\xff", b"\x08" + b"\x7f" + b"\xff" * 7):
            out.append((pdu, "OER", "length-prefix", 0, x + b"\x00" * 8))
    for pdu in ("O", "B", "U", "NL", "SE", "I5", "NS", "OS", "SS", "L", "I"):
        for x in (b"\xc4", b"\xc4" * 4, b"\xc4" * 64, b"\xc1", b"\xbf\xff", b"\xbf\xff" + b"\x00" * 16, b"\xc4" + b"\x00" * 64,
                  b"\xc4\xc4\xc4\xc4\xbf\xff", b"\x7f", b"\xc3" + b"\xff" * 32):
            out.append((pdu, "UPER", "length-prefix", 0, x))
    # XML: many empty elements (zero-width) and huge text
    out.append(("NL", "BXER", "many-empty-elements", 0, b"<NL>" + b"<NULL/>" * 20000 + b"</NL>"))
    out.append(("SS", "BXER", "many-empty-elements", 0, b"<SS>" + b"<SSI></SSI>" * 5000 + b"</SS>"))
    out.append(("NL", "BER", "many-empty-elements", 0, b"\x30\x80" + b"\x05\x00" * 20000 + b"\0\0"))
    out.append(("O", "BER", "many-empty-segments", 0, b"\x24\x80" + b"\x04\x00" * 20000 + b"\0\0"))
    return out


def bulk_inputs():
    """honest large payloads: every input byte is data, so the heap held must stay within a small multiple of the input
    (family 'bulk*': bound 64 KiB + 16 bytes per input byte)"""
    from ..asn import uper as U
    out = []
    n = 200000
    data = bytes((i * 7 + 3) & 0xff for i in range(n))

    def blen(k):
        return bytes([k]) if k < 128 else bytes([0x80 | ((k.bit_length() + 7) // 8)]) + k.to_bytes((k.bit_length() + 7) // 8, "big")
    out.append(("O", "BER", "bulk-primitive", 0, b"\x04" + blen(n) + data))
    seg = b"".join(b"\x04" + blen(1000) + data[i:i + 1000] for i in range(0, n, 1000))
    out.append(("O", "BER", "bulk-segments", 0, b"\x24" + blen(len(seg)) + seg))
    out.append(("O", "BER", "bulk-segments-indefinite", 0, b"\x24\x80" + seg + b"\0\0"))
    out.append(("U", "BER", "bulk-primitive", 0, b"\x0c" + blen(n) + bytes(0x41 + (i % 26) for i in range(n))))
    out.append(("O", "OER", "bulk", 0, blen(n) + data))
    out.append(("O", "BXER", "bulk", 0, b"<O>" + data.hex().upper().encode() + b"</O>"))
    b = U.Bits()
    U.put_fragmented(b, n, lambda bb, st, c: bb.put_bytes(data[st:st + c]))
    out.append(("O", "UPER", "bulk-fragments", 0, b.tobytes()))
    # an extension addition (open type) whose body is cut into k fragments of 16K plus a tail; the body itself is the
    # complete encoding of the OCTET STRING (canonically fragmented inside)
    for k in (2, 4, 7):
        inner = U.Bits()
        blob = data[:k * 16384 - 40] if k * 16384 - 40 <= n else data + data[:k * 16384 - 40 - n]
        U.put_fragmented(inner, len(blob), lambda bb, st, c: bb.put_bytes(blob[st:st + c]))
        body = inner.tobytes()
        assert len(body) // 16384 == k - 1 or len(body) // 16384 == k, (k, len(body))
        b = U.Bits()
        b.put(1, 1); b.put(7, 8)            # extension bit, id
        b.put(0, 7)                         # one addition (normally small length 0)
        b.put(1, 1)                         # ... which is present
        pos = 0
        while len(body) - pos >= 16384:     # finest legal fragmentation: 16K at a time
            b.put(0xC1, 8); b.put_bytes(body[pos:pos + 16384]); pos += 16384
        U.put_length(b, len(body) - pos); b.put_bytes(body[pos:])
        out.append(("PX", "UPER", "bulk-open-type-16K-fragments", k, b.tobytes()))
        b = U.Bits()
        b.put(1, 1); b.put(7, 8); b.put(0, 7); b.put(1, 1)
        U.put_fragmented(b, len(body), lambda bb, st, c: bb.put_bytes(body[st:st + c]))
        out.append(("PX", "UPER", "bulk-open-type", k, b.tobytes()))
    return out


def run(tier, seed):
    chk = core.Check("C15", tier, seed)
    quick = tier == "quick"
    chk.rule = ("recursive and collection-bearing types (fixed module, see samples) x adversarial inputs built by the model: nesting depth "
                "10..10^5 (10^6 thorough) in BER (definite, indefinite, unterminated, nested constructed strings), XER, UPER, OER; maximal length "
                "prefixes with nothing behind them in every length form; zero-width elements with maximal counts; each decoded in a thread "
                "with a %d-byte stack with the default context and max_stack_size in {2000,10000,100000}; plain build for the stack clause "
                "(signal = exhaustion), ASan build for memory errors; heap: ledger peak <= 64KiB + 8KiB * input bytes; "
                "distinct = distinct (type, syntax, family, depth, limit)" % STACK)
    chk.assumptions = ["a 256 KiB thread stack is enough for a decoder that honours a 30000..100000-byte limit",
                       "heap constant deliberately generous: 8 KiB per input byte + 64 KiB"]
    tc = build.toolchain()
    work = build.scratch_dir("c15")
    path = os.path.join(work, "M.asn1")
    with open(path, "w") as f:
        f.write(MODULE)
    depths = [10, 100, 1000, 10000, 100000] + ([] if quick else [1000000])
    inputs = deep_inputs(depths) + bomb_inputs() + bulk_inputs()
    limits = [-1, 2000, 10000, 100000]
    for variant in ("plain", "asan"):
        try:
            exe, p = build.compile_module(tc, [path], os.path.join(work, "out-" + variant), variant=variant)
        except build.BuildError as e:
            print("HARNESS: fixed C15 module does not build: %s" % str(e)[-500:])
            return 2
        if exe is None:
            print("HARNESS: asn1c rejected the fixed C15 module: %s" % p.stderr.decode()[-500:])
            return 2
        cases, meta = [], {}
        cid = 0
        for pdu, syn, fam, d, x in inputs:
            if variant == "asan" and d > 10000:
                continue        # ASan inflates frames; depth behaviour is judged on the plain build
            for lim in (limits if variant == "plain" else [-1]):
                cid += 1
                ops = ["dec s=0 t=%s syn=%s in=%s thr=%d%s" % (pdu, syn, drv.hx(x), STACK if variant == "plain" else 8 << 20,
                                                              "" if lim < 0 else " stack=%d" % lim), "free s=0"]
                cases.append(drv.Case(cid, ops))
                meta[cid] = (pdu, syn, fam, d, x, lim)
        env = build.san_env({"VDRV_WD": "60", "VDRV_HEAPCAP": str(1 << 28)})
        res = drv.run_parallel(exe, cases, env=env, per_case_timeout=120)
        for cid, (pdu, syn, fam, d, x, lim) in meta.items():
            r = res.get(cid)
            if r is None or r.status == "notrun":
                chk.inconcl("case not run")
                continue
            chk.evaluations += 1
            chk.seen((pdu, syn, fam, d, lim, variant, len(x)))
            dclass = "le1e3" if d <= 1000 else ("1e4" if d <= 10000 else "ge1e5")
            replay = {"module": MODULE, "pdu": pdu, "syntax": syn, "family": fam, "depth": d, "max_stack_size": lim,
                      "input_len": len(x), "input_head_hex": x[:64].hex(), "build": variant, "thread_stack": STACK}
            if r.status == "hang":
                if r.confirmed is False:
                    chk.inconcl("timeout not reproduced")
                    continue
                chk.violation({"symptom": "hang", "pdu": pdu, "syntax": syn, "family": fam},
                              "decode of %s %s %s (depth %d, %d bytes) did not finish within the CPU budget" % (pdu, syn, fam, d, len(x)), replay)
                continue
            if r.status == "crash":
                kind, frame = drv.classify_report(r.stderr)
                if r.confirmed is False:
                    chk.inconcl("crash not reproduced on re-run")
                    continue
                sym = "stack-exhaustion" if (fam.startswith("nest") and (kind in ("signal", "SEGV", "stack-overflow") or "stack-overflow" in r.stderr)) else "crash"
                chk.violation({"symptom": sym, "pdu": pdu, "syntax": syn, "family": fam, "depth": dclass, "build": variant,
                               "report": kind if sym == "crash" else "-", "limit": "default" if lim < 0 else "caller"},
                              "%s %s %s depth %d with %s: process died (%s%s) instead of RC_FAIL [%s build, %d-byte thread stack]" % (
                                  pdu, syn, fam, d, "default limit" if lim < 0 else "max_stack_size=%d" % lim, kind,
                                  " in " + frame if frame != "?" else "", variant, STACK), dict(replay, stderr=r.stderr[-1500:]))
                continue
            e = r.events[0]
            if e.get("error"):
                chk.inconcl("driver: " + e["error"])
                continue
            chk.count("rc_%s_%s" % (syn, e.get("rc")))
            if e.get("rc") not in ("OK", "WMORE", "FAIL"):
                chk.violation({"symptom": "illegal-rc", "syntax": syn}, "rc %s" % e.get("rc"), replay)
            peak = int(e.get("peak", 0) or 0)
            maxreq = int(e.get("maxreq", 0) or 0)
            bound = 64 * 1024 + (16 if fam.startswith("bulk") else 8 * 1024) * len(x)
            if fam.startswith("bulk"):
                if e.get("rc") != "OK":
                    chk.inconcl("bulk payload not decoded (%s %s %s): %s" % (pdu, syn, fam, e.get("rc")))
                chk.count("bulk_peak_per_input_byte_x100:%s:%s:%s" % (pdu, syn, fam), int(100 * peak / max(1, len(x))))
            if peak > bound:
                chk.violation({"symptom": "heap-bomb", "pdu": pdu, "syntax": syn, "family": fam},
                              "%s %s %s: decoder held %d bytes of heap while processing %d input bytes (bound %d), rc=%s" % (
                                  pdu, syn, fam, peak, len(x), bound, e.get("rc")), replay)
            if maxreq > bound and maxreq > 16 * 1024 * 1024:
                # a single absurd request, even if refused, shows the length was not checked against the input first
                chk.violation({"symptom": "huge-single-allocation-request", "pdu": pdu, "syntax": syn, "family": fam},
                              "%s %s %s: decoder requested %d bytes in one allocation for %d input bytes, rc=%s" % (
                                  pdu, syn, fam, maxreq, len(x), e.get("rc")), replay)
            if int(r.end.get("live", 0) or 0):
                chk.violation({"symptom": "leak", "pdu": pdu, "syntax": syn, "family": fam},
                              "%s allocation(s) live after free (%s %s %s depth %d)" % (r.end.get("live"), pdu, syn, fam, d), replay)
            if len(chk.samples) < 6 and fam in ("nest-indef", "length-prefix", "nest") and d in (0, 1000):
                chk.sample({"pdu": pdu, "syntax": syn, "family": fam, "depth": d, "input_len": len(x),
                            "input_head_hex": x[:24].hex(), "rc": e.get("rc"), "peak_heap": peak, "limit": lim})
    return chk.finish()
