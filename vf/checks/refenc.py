"""Reference encodings of a value in the non-BER syntaxes (UPER, OER, XER) with their variant families."""


def ext_seq_nodes(mod, t, out=None, seen=None, depth=0):
    """extensible SEQUENCE nodes reachable from type t"""
    out = [] if out is None else out
    seen = set() if seen is None else seen
    rt = mod.resolve(t)
    if id(rt) in seen or depth > 12:
        return out
    seen.add(id(rt))
    k = rt.kind
    if k in ("SEQUENCE", "SET", "CHOICE"):
        if k == "SEQUENCE" and rt.ext is not None:
            out.append(rt)
        for c in rt.all_comps():
            ext_seq_nodes(mod, c.type, out, seen, depth + 1)
    elif k in ("SEQUENCE OF", "SET OF"):
        ext_seq_nodes(mod, rt.elem, out, seen, depth + 1)
    return out


def reference_encodings(mod, t, v, rng, n):
    out = []
    try:
        from ..asn import xer
        out += xer.variants(mod, t, v, rng, n)
    except ImportError:
        pass
    from ..asn import uper, oer
    b = uper.encode(mod, t, v)
    if b is not None:
        out.append(("UPER", "ref", b))
    o = oer.encode(mod, t, v)
    if o is not None:
        out.append(("OER", "ref", o))
    # the same value as sent by a peer that knows a later version of the type: unknown extension additions at the end
    nodes = ext_seq_nodes(mod, t)
    if nodes and (b is not None or o is not None):
        for _ in range(min(n, 2)):
            extra = {id(x): rng.choice([1, 1, 2, 3, 7, (0, 1), (1, 0, 1), (0, 0, 1, 1), (1, 0, 0, 0, 0, 0, 0, 1)]) for x in nodes if rng.random() < 0.7}
            if not extra:
                continue
            if b is not None:
                b2 = uper.encode(mod, t, v, extra)
                if b2 is not None and b2 != b:
                    out.append(("UPER", "v2-sender", b2))
            if o is not None:
                o2 = oer.encode(mod, t, v, extra)
                if o2 is not None and o2 != o:
                    out.append(("OER", "v2-sender", o2))
    return out
