"""Reference encodings of a value in the non-BER syntaxes (UPER, OER, XER) with their variant families."""


def reference_encodings(mod, t, v, rng, n):
    out = []
    try:
        from ..asn import xer
        out += xer.variants(mod, t, v, rng, n)
    except ImportError:
        pass
    try:
        from ..asn import uper
        b = uper.encode(mod, t, v)
        if b is not None:
            out.append(("UPER", "ref", b))
    except ImportError:
        pass
    try:
        from ..asn import oer
        b = oer.encode(mod, t, v)
        if b is not None:
            out.append(("OER", "ref", b))
    except ImportError:
        pass
    return out
