#!/bin/sh
# usage: vf/runall.sh <quick|thorough> [seed]   -- run every registered check against /repo, one line per check
tier=${1:-quick}; seed=${2:-1}
for c in C01 C02 C03 C04 C05 C06 C07 C08 C09 C10 C11 C12 C13 C14 C15 C16 C17 C18 C19 C20; do
  VERIF_SEED=$seed /verif/check $c $tier > /var/tmp/runall.$c.$tier.$seed.log 2>&1; rc=$?
  echo "$c $tier seed=$seed exit=$rc $(grep -c '^VIOLATION' /var/tmp/runall.$c.$tier.$seed.log) violations | $(tail -1 /var/tmp/runall.$c.$tier.$seed.log | cut -c1-220)"
done
