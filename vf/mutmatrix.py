"""python3 -m vf.mutmatrix [id ...] : run the registered checks against every seeded change under /verif/seeded and record
which check catches it (meta.json 'caught_by').  Uses vf/mutrun.sh (scratch worktree /tmp/mut/cur at /repo's HEAD)."""
import json, os, re, subprocess, sys
ALSO = {"C01": ["C03", "C02", "C08", "C09"], "C04": ["C14"], "C05": ["C03", "C18"], "C02": ["C01"], "C03": ["C01"], "C06": ["C02"], "C07": ["C14"], "C09": ["C02"],
        "C13": ["C02", "C18"], "C14": ["C04"], "C08": [], "C16": [], "C17": [], "C20": []}
ids = sys.argv[1:] or sorted(os.listdir("/verif/seeded"))
for mid in ids:
    d = os.path.join("/verif/seeded", mid)
    mp = os.path.join(d, "meta.json")
    if not os.path.exists(mp):
        continue
    meta = json.load(open(mp))
    pid = meta["breaks_property"]
    caught = []
    tried = []
    for chk, tier in [(pid, "quick"), (pid, "thorough")] + [(c, "quick") for c in ALSO.get(pid, [])]:
        if caught and chk != pid:
            break
        if caught and tier == "thorough":
            continue
        p = subprocess.run(["/verif/vf/mutrun.sh", os.path.join(d, "patch.diff"), chk, tier], capture_output=True, text=True,
                           env=dict(os.environ, MUTSHOW="1", MUTW="400"))
        out = p.stdout
        m = re.search(r"exit=(\d+)", out)
        rc = int(m.group(1)) if m else -1
        tried.append("%s %s -> exit %d" % (chk, tier, rc))
        if "PATCH FAILED" in out:
            tried[-1] = "%s %s -> patch does not apply to the current tree" % (chk, tier)
            break
        if rc == 1:
            v = [l for l in out.splitlines() if l.startswith("VIOLATION")]
            caught.append({"check": "%s %s" % (chk, tier), "first_violation": (v[0].split("#", 1)[1].strip() if v and "#" in v[0] else "")[:300]})
    meta["caught_by"] = caught
    meta["checks_run"] = tried
    json.dump(meta, open(mp, "w"), indent=1)
    print(mid, "CAUGHT by " + caught[0]["check"] if caught else "NOT CAUGHT", "|", "; ".join(tried))
