"""./check --setup : verify the tools this framework needs, byte-compile it, warm the toolchain cache."""
import compileall, os, shutil, sys


def main():
    ok = True
    for tool in ("gcc", "ar", "perl"):
        if not shutil.which(tool):
            print("setup: missing tool", tool)
            ok = False
    here = os.path.dirname(os.path.abspath(__file__))
    compileall.compile_dir(here, quiet=1)
    os.makedirs(os.path.join(os.path.dirname(here), "evidence"), exist_ok=True)
    try:
        from . import build
        tc = build.toolchain()
        tc.tool("asn1c", "asan")
        tc.skel("asan")
        print("setup: toolchain ready at", tc.root)
    except Exception as e:      # the checks rebuild on their own; not fatal here
        print("setup: toolchain warm-up failed:", e)
    return 0 if ok else 1
