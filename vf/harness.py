"""Generate modules, compile them against the current tree, hand back drivers."""
import os, shutil, subprocess
from concurrent.futures import ThreadPoolExecutor
from . import build
from .asn import gen, der


class Built:
    def __init__(self):
        self.mod = None
        self.gen = None
        self.exe = None
        self.dir = None
        self.text = None
        self.error = None       # ("asn1c", stderr) | ("cc", msg)
        self.options = ()
        self.seed = None


def make(tc, seed, prof, atoms=12, composites=10, options=(), variant="asan", name="M", workroot=None,
         tagdefault=None, module_fn=None, driver="vdriver", wrap_alloc=True):
    b = Built()
    b.seed = seed
    b.options = tuple(options)
    g = gen.Gen(seed, prof)
    b.gen = g
    if module_fn:
        b.mod = module_fn(g)
    else:
        b.mod = g.module(name, atoms=atoms, composites=composites, tagdefault=tagdefault)
    b.text = b.mod.text()
    b.dir = os.path.join(workroot or build.scratch_dir("mod"), "m%s" % seed)
    os.makedirs(b.dir, exist_ok=True)
    path = os.path.join(b.dir, "%s.asn1" % b.mod.name)
    with open(path, "w") as f:
        f.write(b.text)
    try:
        exe, p = build.compile_module(tc, [path], os.path.join(b.dir, "out"), options=options, variant=variant,
                                      driver=driver, wrap_alloc=wrap_alloc)
    except build.BuildError as e:
        b.error = ("cc", str(e)[-3000:])
        return b
    except subprocess.TimeoutExpired:
        b.error = ("asn1c-timeout", "")
        return b
    if exe is None:
        b.error = ("asn1c", (p.stderr or b"").decode("latin-1")[-3000:])
        return b
    b.exe = exe
    return b


def make_many(tc, seeds, prof, **kw):
    root = build.scratch_dir("mods")
    # make sure toolchain pieces exist before fanning out
    tc.tool("asn1c", "asan")
    tc.skel(kw.get("variant", "asan"))
    tc.driver_obj(kw.get("driver", "vdriver"), kw.get("variant", "asan"))
    if kw.get("wrap_alloc", True):
        tc.driver_obj("ledger", kw.get("variant", "asan"))
    with ThreadPoolExecutor(min(8, max(1, len(seeds)))) as ex:
        return list(ex.map(lambda s: make(tc, s, prof, workroot=root, **kw), seeds))


def ref_der(b, t, v):
    try:
        return der.Encoder(b.mod).encode(t, v)
    except der.Unsupported:
        return None
