#!/bin/sh
# usage: vf/mutrun.sh <patch.diff> <Cnn> [tier]   -- run a check against a seeded change applied to a scratch
# worktree (/tmp/mut/cur) of /repo's current HEAD
patch=$1; c=$2; tier=${3:-quick}
wt=${MUTWT:-/tmp/mut/cur}
git -C $wt checkout -q --detach $(git -C /repo rev-parse HEAD) && git -C $wt checkout -q -- . && git -C $wt apply $patch || { echo "PATCH FAILED"; exit 3; }
mkdir -p /var/tmp/mut-evidence/replay; VERIF_EVIDENCE_DIR=/var/tmp/mut-evidence VERIF_REPO=$wt /verif/check $c $tier > /var/tmp/mutrun.$$.log 2>&1; rc=$?
grep -c "^VIOLATION" /var/tmp/mutrun.$$.log | sed "s/^/violations: /"
grep "^VIOLATION" /var/tmp/mutrun.$$.log | head -${MUTSHOW:-3} | cut -c1-${MUTW:-260}
tail -1 /var/tmp/mutrun.$$.log | cut -c1-200
echo "exit=$rc"
rm -f /var/tmp/mutrun.$$.log
git -C $wt checkout -q -- .
