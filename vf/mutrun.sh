#!/bin/sh
# usage: vf/mutrun.sh <worktree> <patch.diff> <Cnn> [tier]   -- run a check against a seeded mutant in a scratch worktree
wt=$1; patch=$2; c=$3; tier=${4:-quick}
git -C $wt checkout -q -- . && git -C $wt apply $patch || { echo "PATCH FAILED"; exit 3; }
VERIF_REPO=$wt VERIF_KEEP_EVID=1 /verif/check $c $tier > /var/tmp/mutrun.$$.log 2>&1; rc=$?
grep -c "^VIOLATION" /var/tmp/mutrun.$$.log | sed "s/^/violations: /"
grep "^VIOLATION" /var/tmp/mutrun.$$.log | head -${MUTSHOW:-3} | cut -c1-${MUTW:-260}
tail -1 /var/tmp/mutrun.$$.log | cut -c1-200
echo "exit=$rc"
rm -f /var/tmp/mutrun.$$.log
git -C $wt checkout -q -- .
