"""python3 -m vf.kfaudit [tier] [seeds...] : which open known findings were reproduced by the runs logged in /var/tmp/runall.*.log
(written by vf/runall.sh) and which were never hit"""
import glob, json, re, sys, collections
kf = json.load(open("/verif/known_findings.json"))["findings"]
openids = {e["id"]: e for e in kf if e["status"] == "open"}
hits = collections.Counter()
for f in glob.glob("/var/tmp/runall.*.log"):
    for line in open(f, errors="replace"):
        m = re.match(r"KNOWN-FINDING: property=\S+ (\S+) .*\(x(\d+)\)", line)
        if m:
            hits[m.group(1)] += int(m.group(2))
print("reproduced: %d of %d open findings" % (sum(1 for i in openids if hits[i]), len(openids)))
for i, e in openids.items():
    if not hits[i]:
        print("NEVER HIT:", i, "|", " ".join(e["what"].split())[:140])
# entries that may hide more than they describe: no feature id at all and at most two key fields, or a feature id that
# names a whole kind (nothing but wildcards between the kind and the syntax)
def _whole_kind(r):
    m = re.match(r"^\^?([A-Za-z ]+)/(.*?)(@.*)?\$?$", r)
    if not m:
        return False
    mid = re.sub(r"\.\*|\[\^/\]\*|/|\(|\)|\?|\\\+", "", m.group(2))
    return not re.search(r"[A-Za-z0-9]", mid)
for i, e in openids.items():
    fr = e.get("fid_re") or []
    m = e.get("match") or {}
    if (not fr and len(m) <= 2 and not any(str(v).startswith("re:") for v in m.values())) or any(_whole_kind(r) for r in fr):
        print("COARSE?", i, "| match", json.dumps(m)[:120], "| fid_re", fr)
