"""python3 -m vf.kfgen Cnn field1,field2,... : propose known-finding entries from the replay files of a
property, one per distinct combination of the given key fields.  Output is reviewed by hand and appended to
known_findings.json (never done at check run time)."""
import glob, json, sys, collections
pid = sys.argv[1]
fields = sys.argv[2].split(",")
apply_ = len(sys.argv) > 3 and sys.argv[3] == "--apply"
groups = collections.OrderedDict()
for f in sorted(glob.glob('/verif/evidence/replay/%s-*.json' % pid)):
    r = json.load(open(f))
    k = r['key']
    gk = tuple((a, k.get(a)) for a in fields)
    groups.setdefault(gk, []).append(r)
out = []
for gk, rs in groups.items():
    rs.sort(key=lambda r: len(json.dumps(r['replay'])))
    r = rs[0]
    ident = "KF-%s-" % pid + "-".join(str(v).replace(" ", "_").replace("|", "_")[:28] for a, v in gk if v not in (None, "", [], "none"))
    rp = r['replay'] or {}
    wit = {k: rp[k] for k in ("pdu", "syntax", "family", "input_hex", "schedule", "prefix", "ref_der", "value", "s1", "s2", "mutation", "options", "line", "tz") if k in rp}
    if "module" in rp:
        wit["module"] = rp["module"] if len(rp["module"]) < 1500 else rp["module"][:1500] + "..."
    if "input_hex" in wit and len(wit["input_hex"]) > 600:
        wit["input_hex"] = wit["input_hex"][:600] + "..."
    out.append({"id": ident, "property": pid, "status": "open", "what": r['what'][:400],
                "match": {a: v for a, v in gk if a != "fids"}, "witness": wit, "_count": len(rs)})
for e in out:
    print(json.dumps(e, ensure_ascii=False)[:700])
    print()
if apply_:
    p = '/verif/known_findings.json'
    d = json.load(open(p))
    have = set(f['id'] for f in d['findings'])
    n = 0
    for e in out:
        e.pop("_count")
        base = e['id']
        i = 2
        while e['id'] in have:
            e['id'] = "%s-%d" % (base, i)
            i += 1
        have.add(e['id'])
        d['findings'].append(e)
        n += 1
    json.dump(d, open(p, 'w'), indent=1, ensure_ascii=False)
    print("appended", n)
