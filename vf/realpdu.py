"""Real-world workload: the specifications shipped under examples/ whose sample PDUs are shipped too
(an X.509 certificate in DER, an LDAP message in BER, UMTS RRC messages in unaligned PER, all produced by
other implementations), compiled with the options the examples' own makefiles use.  No model of these
specifications exists here: what is judged is what needs none (agreement with the foreign bytes,
agreement between syntaxes, builds and option sets, memory safety, accounting)."""
import glob, os, re, subprocess
from concurrent.futures import ThreadPoolExecutor
from . import build

# name -> (glob of specification files under examples/, option set of the example makefile)
SPECS = {
    "PKIX1": ("rfc3280-*.asn1", ("-fcompound-names", "-fwide-types")),
    "LDAP3": ("rfc4511-Lightweight-Directory-Access-Protocol-V3.asn1", ("-fcompound-names", "-fwide-types")),
    "RRC": ("rrc-7.1.0.asn1", ("-fcompound-names", "-fwide-types")),
}
# (specification, PDU type, decoder syntax, file under examples/)
SAMPLES = [
    ("PKIX1", "Certificate", "BER", "sample.source.PKIX1/sample-Certificate-1.der"),
    ("LDAP3", "LDAPMessage", "BER", "sample.source.LDAP3/sample-LDAPMessage-1.ber"),
    ("RRC", "BCCH-BCH-Message", "UPER", "sample.source.RRC/sample-BCCH-BCH-Message-2.per"),
    ("RRC", "DL-CCCH-Message", "UPER", "sample.source.RRC/sample-DL-CCCH-Message-2-nopad.per"),
    ("RRC", "DL-DCCH-Message", "UPER", "sample.source.RRC/sample-DL-DCCH-Message-1-nopad.per"),
    ("RRC", "DL-DCCH-Message", "UPER", "sample.source.RRC/sample-DL-DCCH-Message-1.per"),
]


class Real:
    def __init__(self, name):
        self.name = name
        self.seed = "real:" + name
        self.exe = None
        self.error = None
        self.options = ()
        self.text = ""
        self.has_set = False
        self.mod = None         # no model of these specifications
        self.gen = None


RFC_TEXT = {"PKIX1": "rfc3280.txt", "LDAP3": "rfc4511.txt"}


def spec_paths(tc, name, scratch=None):
    """the specification files; those the project's build extracts from an RFC text (examples/crfc2asn1.pl, the results are
    not tracked) are extracted here the same way from the tree's own script and text, so that an unbuilt tree will do"""
    ex = os.path.join(tc.repo, "examples")
    src = RFC_TEXT.get(name)
    if src and os.path.exists(os.path.join(ex, src)) and os.path.exists(os.path.join(ex, "crfc2asn1.pl")):
        import tempfile
        base = scratch or build.scratch_dir("rfc")
        os.makedirs(base, exist_ok=True)
        d = tempfile.mkdtemp(prefix="rfc-" + name + "-", dir=base)       # callers run in parallel
        try:
            subprocess.run(["perl", os.path.join(ex, "crfc2asn1.pl"), os.path.join(ex, src)], cwd=d, stdout=subprocess.PIPE,
                           stderr=subprocess.PIPE, timeout=120)
        except Exception:
            pass
        got = sorted(glob.glob(os.path.join(d, SPECS[name][0])))
        if got:
            return got
    return sorted(glob.glob(os.path.join(ex, SPECS[name][0])))


def make(tc, name, options=None, variant="asan", driver="vdriver", wrap_alloc=True, root=None):
    b = Real(name)
    paths = spec_paths(tc, name, root)
    b.options = tuple(SPECS[name][1] if options is None else options)
    b.text = "shipped examples/%s compiled with [%s]" % (SPECS[name][0], " ".join(b.options))
    if not paths:
        b.error = ("missing", "no specification file")
        return b
    src = "".join(open(p, encoding="latin-1").read() for p in paths)
    b.has_set = bool(re.search(r"\bSET\s*\{", src))
    out = os.path.join(root or build.scratch_dir("real"), name + "-" + "".join(o.strip("-")[:6] for o in b.options) + "-" + variant)
    try:
        exe, p = build.compile_module(tc, paths, out, options=b.options, variant=variant, driver=driver, wrap_alloc=wrap_alloc)
    except build.BuildError as e:
        b.error = ("cc", str(e)[-2000:])
        return b
    except Exception as e:      # timeouts
        b.error = ("asn1c", str(e)[-500:])
        return b
    if exe is None:
        b.error = ("asn1c", (p.stderr or b"").decode("latin-1")[-2000:])
        return b
    b.exe = exe
    return b


def make_many(tc, names, **kw):
    root = build.scratch_dir("real")
    tc.tool("asn1c", "asan")
    tc.skel(kw.get("variant", "asan"))
    tc.driver_obj(kw.get("driver", "vdriver"), kw.get("variant", "asan"))
    if kw.get("wrap_alloc", True):
        tc.driver_obj("ledger", kw.get("variant", "asan"))
    with ThreadPoolExecutor(len(names)) as ex:
        return {n: b for n, b in zip(names, ex.map(lambda n: make(tc, n, root=root, **kw), names))}


def samples(tc, names):
    out = []
    for spec, pdu, syn, rel in SAMPLES:
        if spec in names:
            with open(os.path.join(tc.repo, "examples", rel), "rb") as f:
                out.append((spec, pdu, syn, os.path.basename(rel), f.read()))
    return out


def names(quick):
    """RRC (about 1500 types, a minute of compilation) is left to the thorough tier"""
    return ["PKIX1", "LDAP3"] if quick else ["PKIX1", "LDAP3", "RRC"]
