"""python3 -m vf.triage Cnn : group the replay files of a property by key"""
import glob, json, sys, collections
pid = sys.argv[1]
only = sys.argv[2] if len(sys.argv) > 2 else None
groups = collections.OrderedDict()
for f in sorted(glob.glob('/verif/evidence/replay/%s-*.json' % pid)):
    r = json.load(open(f))
    k = r['key']
    gk = tuple((a, k.get(a)) for a in ('symptom', 'syntax', 'step', 'kind', 'feature', 'report', 'frame') if a in k)
    groups.setdefault(gk, []).append(r)
for gk, rs in groups.items():
    rs.sort(key=lambda r: len(r['what']))
    if only and only not in str(gk):
        continue
    print('=' * 100)
    print(len(rs), gk)
    for r in rs[:2]:
        print('   ', r['what'][:700])
