/*
 * Helper-API driver for C16 (INTEGER/REAL conversion helpers, strto*_lim) and
 * C17 (OBJECT IDENTIFIER / RELATIVE-OID arcs, GeneralizedTime / UTCTime).
 * One command per input line, one result line per command.
 */
#define _GNU_SOURCE
#include <stdio.h>
#include <stdlib.h>
#include <string.h>
#include <errno.h>
#include <inttypes.h>
#include <time.h>
#include <unistd.h>
#include <signal.h>
#include <sys/time.h>

#include <asn_application.h>
#include <asn_internal.h>
#include <INTEGER.h>
#include <REAL.h>
#include <OBJECT_IDENTIFIER.h>
#include <RELATIVE-OID.h>
#include <GeneralizedTime.h>
#include <UTCTime.h>

static int hexval(int c) {
    if(c >= '0' && c <= '9') return c - '0';
    if(c >= 'a' && c <= 'f') return c - 'a' + 10;
    if(c >= 'A' && c <= 'F') return c - 'A' + 10;
    return -1;
}
static unsigned char *unhex(const char *h, size_t *n) {
    size_t l = strlen(h), i;
    unsigned char *b;
    if(l == 1 && h[0] == '-') l = 0;
    *n = l / 2;
    b = malloc(*n ? *n : 1);
    for(i = 0; i < *n; i++) b[i] = (unsigned char)(hexval(h[2 * i]) << 4 | hexval(h[2 * i + 1]));
    return b;
}
static void puthex(const void *p, size_t n) {
    const unsigned char *b = p;
    size_t i;
    if(!n) { putchar('-'); return; }
    for(i = 0; i < n; i++) printf("%02x", b[i]);
}
/* text passed as hex -> exact-size NUL-terminated malloc'ed string */
static char *untext(const char *h, size_t *len) {
    size_t n;
    unsigned char *b = unhex(h, &n);
    char *s = malloc(n + 1);
    memcpy(s, b, n);
    s[n] = 0;
    free(b);
    if(len) *len = n;
    return s;
}

static long g_line;
static void on_alarm(int sig) {
    char buf[64];
    int n = snprintf(buf, sizeof(buf), "\nHANG %ld\n", g_line);
    (void)sig;
    if(write(1, buf, (size_t)n) < 0) {}
    _exit(5);
}

static void int_back(INTEGER_t *st) {
    long l = 0; unsigned long ul = 0; intmax_t im = 0; uintmax_t um = 0;
    int r1, r2, r3, r4;
    errno = 0;
    r1 = asn_INTEGER2long(st, &l);
    r2 = asn_INTEGER2ulong(st, &ul);
    r3 = asn_INTEGER2imax(st, &im);
    r4 = asn_INTEGER2umax(st, &um);
    printf(" long=%d:%ld ulong=%d:%lu imax=%d:%" PRIdMAX " umax=%d:%" PRIuMAX, r1, l, r2, ul, r3, im, r4, um);
}

int main(int argc, char **argv) {
    char *line = 0;
    size_t cap = 0;
    ssize_t ll;
    FILE *in = stdin;
    if(argc > 1) { in = fopen(argv[1], "r"); if(!in) { perror(argv[1]); return 2; } }
    signal(SIGVTALRM, on_alarm);
    setvbuf(stdout, 0, _IOFBF, 1 << 16);
    tzset();
    while((ll = getline(&line, &cap, in)) > 0) {
        char *op, *a1, *a2, *a3, *save = 0;
        struct itimerval it;
        while(ll > 0 && (line[ll - 1] == '\n' || line[ll - 1] == '\r')) line[--ll] = 0;
        if(!ll) continue;
        g_line++;
        if((g_line & 1023) == 1) {
            memset(&it, 0, sizeof(it)); it.it_value.tv_sec = 30; setitimer(ITIMER_VIRTUAL, &it, 0);
        }
        op = strtok_r(line, " ", &save);
        a1 = strtok_r(0, " ", &save);
        a2 = strtok_r(0, " ", &save);
        a3 = strtok_r(0, " ", &save);
        if(!op || !a1) continue;
        errno = 0;
        if(!strcmp(op, "l2i") || !strcmp(op, "ul2i") || !strcmp(op, "im2i") || !strcmp(op, "um2i")) {
            INTEGER_t st;
            int r;
            memset(&st, 0, sizeof(st));
            if(!strcmp(op, "l2i")) r = asn_long2INTEGER(&st, strtol(a1, 0, 10));
            else if(!strcmp(op, "ul2i")) r = asn_ulong2INTEGER(&st, strtoul(a1, 0, 10));
            else if(!strcmp(op, "im2i")) r = asn_imax2INTEGER(&st, strtoimax(a1, 0, 10));
            else r = asn_umax2INTEGER(&st, strtoumax(a1, 0, 10));
            printf("R %s in=%s rc=%d out=", op, a1, r);
            puthex(st.buf, (size_t)st.size);
            if(r == 0) int_back(&st);
            printf("\n");
            ASN_STRUCT_FREE_CONTENTS_ONLY(asn_DEF_INTEGER, &st);
        } else if(!strcmp(op, "i2l")) {
            INTEGER_t st;
            size_t n;
            memset(&st, 0, sizeof(st));
            st.buf = unhex(a1, &n);
            st.size = (int)n;
            printf("R i2l in=%s", a1);
            int_back(&st);
            printf("\n");
            free(st.buf);
        } else if(!strcmp(op, "d2r")) {
            REAL_t st;
            uint64_t bits = strtoull(a1, 0, 16), back = 0;
            double d, d2 = 0;
            int r, r2 = -9;
            memset(&st, 0, sizeof(st));
            memcpy(&d, &bits, 8);
            r = asn_double2REAL(&st, d);
            printf("R d2r in=%016" PRIx64 " rc=%d out=", bits, r);
            puthex(st.buf, (size_t)st.size);
            if(r == 0) {
                /* exact-size copy so that ASan sees over-reads of the contents */
                REAL_t cp;
                memset(&cp, 0, sizeof(cp));
                cp.buf = malloc(st.size ? (size_t)st.size : 1);
                memcpy(cp.buf, st.buf, (size_t)st.size);
                cp.size = st.size;
                r2 = asn_REAL2double(&cp, &d2);
                memcpy(&back, &d2, 8);
                free(cp.buf);
            }
            printf(" rc2=%d back=%016" PRIx64 "\n", r2, back);
            ASN_STRUCT_FREE_CONTENTS_ONLY(asn_DEF_REAL, &st);
        } else if(!strcmp(op, "r2d")) {
            REAL_t st;
            size_t n;
            double d = 0;
            uint64_t bits = 0;
            int r;
            memset(&st, 0, sizeof(st));
            st.buf = unhex(a1, &n);
            st.size = (int)n;
            r = asn_REAL2double(&st, &d);
            memcpy(&bits, &d, 8);
            printf("R r2d in=%s rc=%d bits=%016" PRIx64 " errno=%d\n", a1, r, bits, errno);
            free(st.buf);
        } else if(!strcmp(op, "strto")) {
            size_t n;
            char *s = untext(a1, &n);
            const char *e1 = s + n, *e2 = s + n, *e3 = s + n, *e4 = s + n;
            long l = 0; unsigned long ul = 0; intmax_t im = 0; uintmax_t um = 0;
            int r1 = asn_strtol_lim(s, &e1, &l);
            int r2 = asn_strtoul_lim(s, &e2, &ul);
            int r3 = asn_strtoimax_lim(s, &e3, &im);
            int r4 = asn_strtoumax_lim(s, &e4, &um);
            printf("R strto in=%s l=%d:%ld:%ld ul=%d:%lu:%ld im=%d:%" PRIdMAX ":%ld um=%d:%" PRIuMAX ":%ld\n", a1,
                   r1, l, (long)(e1 - s), r2, ul, (long)(e2 - s), r3, im, (long)(e3 - s), r4, um, (long)(e4 - s));
            free(s);
        } else if(!strcmp(op, "oidset") || !strcmp(op, "roidset")) {
            asn_oid_arc_t arcs[64], back[64];
            size_t n = 0, i;
            char *tok, *sv = 0;
            OBJECT_IDENTIFIER_t st;
            int r;
            ssize_t c = -9;
            int rel = op[0] == 'r';
            memset(&st, 0, sizeof(st));
            if(strcmp(a1, "-"))
                for(tok = strtok_r(a1, ",", &sv); tok && n < 64; tok = strtok_r(0, ",", &sv))
                    arcs[n++] = (asn_oid_arc_t)strtoul(tok, 0, 10);
            r = rel ? RELATIVE_OID_set_arcs(&st, arcs, n) : OBJECT_IDENTIFIER_set_arcs(&st, arcs, n);
            printf("R %s rc=%d errno=%d out=", op, r, r ? errno : 0);
            puthex(st.buf, (size_t)st.size);
            if(r == 0) {
                errno = 0;
                memset(back, 0xee, sizeof(back));
                c = rel ? RELATIVE_OID_get_arcs(&st, back, 64) : OBJECT_IDENTIFIER_get_arcs(&st, back, 64);
                printf(" count=%zd arcs=", c);
                for(i = 0; c > 0 && i < (size_t)c && i < 64; i++) printf("%s%" PRIu32, i ? "," : "", back[i]);
                if(c <= 0) printf("-");
            }
            printf("\n");
            ASN_STRUCT_FREE_CONTENTS_ONLY(asn_DEF_OBJECT_IDENTIFIER, &st);
        } else if(!strcmp(op, "oidget") || !strcmp(op, "roidget")) {
            OBJECT_IDENTIFIER_t st;
            size_t n, i, slots = a2 ? (size_t)atoi(a2) : 64;
            asn_oid_arc_t *back;
            ssize_t c;
            int rel = op[0] == 'r';
            memset(&st, 0, sizeof(st));
            st.buf = unhex(a1, &n);
            st.size = (int)n;
            back = malloc(slots ? slots * sizeof(*back) : 1);
            c = rel ? RELATIVE_OID_get_arcs(&st, back, slots) : OBJECT_IDENTIFIER_get_arcs(&st, back, slots);
            printf("R %s in=%s count=%zd errno=%d arcs=", op, a1, c, c < 0 ? errno : 0);
            for(i = 0; c > 0 && i < (size_t)c && i < slots; i++) printf("%s%" PRIu32, i ? "," : "", back[i]);
            if(c <= 0 || !slots) printf("-");
            printf("\n");
            free(back);
            free(st.buf);
        } else if(!strcmp(op, "oidparse")) {
            size_t n, i, slots = a2 ? (size_t)atoi(a2) : 64;
            char *s = untext(a1, &n);
            const char *end = 0;
            asn_oid_arc_t *back = malloc(slots ? slots * sizeof(*back) : 1);
            ssize_t c;
            /* explicit length variant on an exact-size non-terminated copy */
            char *raw = malloc(n ? n : 1);
            memcpy(raw, s, n);
            c = OBJECT_IDENTIFIER_parse_arcs(raw, (ssize_t)n, back, slots, &end);
            printf("R oidparse in=%s count=%zd end=%ld arcs=", a1, c, end ? (long)(end - raw) : -1L);
            for(i = 0; c > 0 && i < (size_t)c && i < slots; i++) printf("%s%" PRIu32, i ? "," : "", back[i]);
            if(c <= 0 || !slots) printf("-");
            printf("\n");
            free(raw); free(back); free(s);
        } else if(!strcmp(op, "arc")) {
            /* single arc codec: set into exact-size buffer, get back */
            asn_oid_arc_t v = (asn_oid_arc_t)strtoul(a1, 0, 10), back = 0;
            size_t sz = a2 ? (size_t)atoi(a2) : 8;
            uint8_t *b = malloc(sz ? sz : 1);
            ssize_t w = OBJECT_IDENTIFIER_set_single_arc(b, sz, v), g = -9;
            printf("R arc v=%" PRIu32 " size=%zu w=%zd out=", v, sz, w);
            if(w > 0) { puthex(b, (size_t)w); g = OBJECT_IDENTIFIER_get_single_arc(b, (size_t)w, &back); }
            else printf("-");
            printf(" g=%zd back=%" PRIu32 "\n", g, back);
            free(b);
        } else if(!strcmp(op, "t2gt") || !strcmp(op, "t2ut")) {
            time_t t = (time_t)strtoll(a1, 0, 10), t2;
            int fv = a2 ? atoi(a2) : 0, fd = a3 ? atoi(a3) : 0, bv = -1, bd = -1;
            struct tm tm;
            GeneralizedTime_t *gt;
            int ut = op[2] == 'u';
            memset(&tm, 0, sizeof(tm));
            if(!localtime_r(&t, &tm)) { printf("R %s t=%s error=localtime\n", op, a1); continue; }
            errno = 0;
            gt = ut ? asn_time2UT(0, &tm, 1) : asn_time2GT_frac(0, &tm, fv, fd, 1);
            if(!gt) { printf("R %s t=%s rc=null errno=%d\n", op, a1, errno); continue; }
            printf("R %s t=%s text=", op, a1);
            puthex(gt->buf, (size_t)gt->size);
            errno = 0;
            if(ut) t2 = asn_UT2time(gt, 0, 0);
            else t2 = asn_GT2time_frac(gt, &bv, &bd, 0, 0);
            printf(" back=%lld errno=%d fv=%d fd=%d\n", (long long)t2, errno, bv, bd);
            ASN_STRUCT_FREE(asn_DEF_GeneralizedTime, gt);
        } else if(!strcmp(op, "gt2t") || !strcmp(op, "ut2t")) {
            GeneralizedTime_t st;
            size_t n;
            time_t t;
            int bv = -1, bd = -1;
            struct tm tm;
            memset(&st, 0, sizeof(st));
            memset(&tm, 0, sizeof(tm));
            st.buf = unhex(a1, &n);
            st.size = (int)n;
            errno = 0;
            if(op[0] == 'u') t = asn_UT2time(&st, &tm, 1);
            else t = asn_GT2time_frac(&st, &bv, &bd, &tm, 1);
            printf("R %s in=%s t=%lld errno=%d fv=%d fd=%d tm=%d-%d-%d_%d:%d:%d\n", op, a1, (long long)t, errno, bv, bd,
                   tm.tm_year + 1900, tm.tm_mon + 1, tm.tm_mday, tm.tm_hour, tm.tm_min, tm.tm_sec);
            free(st.buf);
        } else {
            printf("R %s error=unknown\n", op);
        }
    }
    printf("DONE\n");
    fflush(stdout);
    return 0;
}
