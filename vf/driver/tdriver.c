/*
 * tdriver -- multi-threaded codec driver for C19 (re-entrancy).
 *
 *   tdriver <script> [seq] [jitter=<seed>]
 *
 * The script holds one block per thread:
 *   T <tid>
 *   dec s=<slot> t=<pdu> syn=<BER|UPER|OER|BXER|CXER> in=<hex>
 *   enc s=<slot> syn=<DER|UPER|OER|BXER|CXER|TEXT>
 *   chk s=<slot>
 *   prt s=<slot>
 *   cmp a=<slot> b=<slot>
 *   gt  s=<slot>            (asn_GT2time / asn_UT2time when the slot holds a time type)
 *   free s=<slot>
 * Every thread owns its slots, its log buffer and its timing records; the only
 * things shared are the library and the generated type descriptors.  With
 * "seq" the blocks are executed one after the other on the main thread (the
 * expected log); otherwise all threads start together behind a barrier and
 * yield / sleep a seeded random while *between* library calls.
 * Output: "T <tid>" + that thread's result lines, then "t <tid> <opidx> <op>
 * <type> <t0> <t1>" timing lines (CLOCK_MONOTONIC ns).
 */
#define _GNU_SOURCE
#include <stdio.h>
#include <stdlib.h>
#include <string.h>
#include <stdarg.h>
#include <errno.h>
#include <time.h>
#include <sched.h>
#include <pthread.h>
#include <asn_application.h>
#include <asn_internal.h>
#include <GeneralizedTime.h>
#include <UTCTime.h>

extern asn_TYPE_descriptor_t *asn_pdu_collection[];

#define NSLOTS 8
#define MAXTHR 64

struct op {
    char name[8];
    int s, a, b;
    const asn_TYPE_descriptor_t *td;
    enum asn_transfer_syntax syn;
    char synname[8];
    unsigned char *in;
    size_t inlen;
};

struct timing { int opidx; long long t0, t1; const char *op; const char *type; };

struct thr {
    int tid;
    struct op *ops;
    size_t nops;
    char *log;
    size_t loglen, logcap;
    struct timing *tm;
    size_t ntm;
    struct { const asn_TYPE_descriptor_t *td; void *ptr; } slots[NSLOTS];
    unsigned int rnd;
    pthread_t th;
};

static struct thr thrs[MAXTHR];
static int nthr;
static pthread_barrier_t barrier;
static int jitter_on;
static unsigned jitter_seed;

static void lg(struct thr *t, const char *fmt, ...) {
    va_list ap;
    for(;;) {
        int n;
        va_start(ap, fmt);
        n = vsnprintf(t->log + t->loglen, t->logcap - t->loglen, fmt, ap);
        va_end(ap);
        if(n >= 0 && (size_t)n < t->logcap - t->loglen) { t->loglen += (size_t)n; return; }
        t->logcap = t->logcap * 2 + (size_t)(n > 0 ? n : 256);
        t->log = realloc(t->log, t->logcap);
        if(!t->log) abort();
    }
}

static long long now_ns(void) {
    struct timespec ts;
    clock_gettime(CLOCK_MONOTONIC, &ts);
    return (long long)ts.tv_sec * 1000000000LL + ts.tv_nsec;
}

static asn_TYPE_descriptor_t *find_pdu(const char *name) {
    int i;
    for(i = 0; asn_pdu_collection[i]; i++)
        if(!strcmp(asn_pdu_collection[i]->name, name)) return asn_pdu_collection[i];
    return 0;
}

static enum asn_transfer_syntax syn_of(const char *s, int decode) {
    if(!strcmp(s, "BER")) return ATS_BER;
    if(!strcmp(s, "DER")) return decode ? ATS_BER : ATS_DER;
    if(!strcmp(s, "OER")) return decode ? ATS_BASIC_OER : ATS_CANONICAL_OER;
    if(!strcmp(s, "UPER")) return decode ? ATS_UNALIGNED_BASIC_PER : ATS_UNALIGNED_CANONICAL_PER;
    if(!strcmp(s, "BXER")) return ATS_BASIC_XER;
    if(!strcmp(s, "CXER")) return ATS_CANONICAL_XER;
    if(!strcmp(s, "TEXT")) return ATS_NONSTANDARD_PLAINTEXT;
    return ATS_INVALID;
}

struct sink { unsigned char *b; size_t n, cap; };
static int sink_cb(const void *p, size_t n, void *key) {
    struct sink *k = key;
    if(k->n + n > k->cap) {
        k->cap = (k->n + n) * 2 + 64;
        k->b = realloc(k->b, k->cap);
        if(!k->b) return -1;
    }
    memcpy(k->b + k->n, p, n);
    k->n += n;
    return 0;
}

static void hexlog(struct thr *t, const unsigned char *b, size_t n) {
    static const char d[] = "0123456789abcdef";
    size_t i;
    if(n == 0) { lg(t, "-"); return; }
    if(n > 3000) {      /* length + FNV-1a digest */
        unsigned long long h = 1469598103934665603ULL;
        for(i = 0; i < n; i++) { h ^= b[i]; h *= 1099511628211ULL; }
        lg(t, "len%zu:%016llx", n, h);
        return;
    }
    for(i = 0; i < n; i++) { char c[3] = { d[b[i] >> 4], d[b[i] & 15], 0 }; lg(t, "%s", c); }
}

static void pause_between(struct thr *t) {
    unsigned r;
    if(!jitter_on) return;
    t->rnd = t->rnd * 1103515245u + 12345u;
    r = (t->rnd >> 16) & 15;
    if(r < 6) return;
    if(r < 12) { sched_yield(); return; }
    {
        struct timespec ts = { 0, (long)(((t->rnd >> 8) & 0xff) * 400) };  /* up to ~100us */
        nanosleep(&ts, 0);
    }
}

/* one codec context for all threads, living in static storage (asn_codecs.h: the context need not be on the caller's
 * stack); every other decode passes it, the others pass none */
static const asn_codec_ctx_t g_shared_ctx = { 1000000 };

static void run_thread_ops(struct thr *t) {
    size_t i;
    for(i = 0; i < t->nops; i++) {
        struct op *o = &t->ops[i];
        struct timing *tm = &t->tm[t->ntm];
        const asn_TYPE_descriptor_t *td = 0;
        pause_between(t);
        tm->opidx = (int)i;
        tm->op = o->name;
        if(!strcmp(o->name, "dec")) {
            void *ptr = 0;
            asn_dec_rval_t rv;
            td = o->td;
            tm->t0 = now_ns();
            rv = asn_decode((i & 1) ? &g_shared_ctx : 0, o->syn, td, &ptr, o->in, o->inlen);
            tm->t1 = now_ns();
            if(t->slots[o->s].ptr) ASN_STRUCT_FREE(*t->slots[o->s].td, t->slots[o->s].ptr);
            t->slots[o->s].td = td;
            t->slots[o->s].ptr = ptr;
            lg(t, "R dec syn=%s rc=%d consumed=%zu\n", o->synname, (int)rv.code, rv.consumed);
        } else if(!strcmp(o->name, "enc")) {
            struct sink k = { 0, 0, 0 };
            asn_enc_rval_t er;
            td = t->slots[o->s].td;
            if(!td || !t->slots[o->s].ptr) { lg(t, "R enc error=empty\n"); continue; }
            tm->t0 = now_ns();
            er = asn_encode(0, o->syn, td, t->slots[o->s].ptr, sink_cb, &k);
            tm->t1 = now_ns();
            lg(t, "R enc syn=%s rc=%zd out=", o->synname, er.encoded);
            if(er.encoded >= 0) hexlog(t, k.b, k.n); else lg(t, "-");
            lg(t, "\n");
            free(k.b);
        } else if(!strcmp(o->name, "chk")) {
            char eb[128];
            size_t el = sizeof(eb);
            int r;
            td = t->slots[o->s].td;
            if(!td || !t->slots[o->s].ptr) { lg(t, "R chk error=empty\n"); continue; }
            tm->t0 = now_ns();
            r = asn_check_constraints(td, t->slots[o->s].ptr, eb, &el);
            tm->t1 = now_ns();
            lg(t, "R chk rc=%d\n", r);
        } else if(!strcmp(o->name, "prt")) {
            struct sink k = { 0, 0, 0 };
            int r;
            td = t->slots[o->s].td;
            if(!td || !t->slots[o->s].ptr) { lg(t, "R prt error=empty\n"); continue; }
            tm->t0 = now_ns();
            r = td->op->print_struct(td, t->slots[o->s].ptr, 1, sink_cb, &k);
            tm->t1 = now_ns();
            lg(t, "R prt rc=%d out=", r);
            hexlog(t, k.b, k.n);
            lg(t, "\n");
            free(k.b);
        } else if(!strcmp(o->name, "cmp")) {
            int r;
            td = t->slots[o->a].td;
            if(!td || td != t->slots[o->b].td || !t->slots[o->a].ptr || !t->slots[o->b].ptr) { lg(t, "R cmp error=empty\n"); continue; }
            tm->t0 = now_ns();
            r = td->op->compare_struct(td, t->slots[o->a].ptr, t->slots[o->b].ptr);
            tm->t1 = now_ns();
            lg(t, "R cmp rc=%d\n", r);
        } else if(!strcmp(o->name, "gt")) {
            struct tm tms;
            time_t tt = -2;
            td = t->slots[o->s].td;
            if(!td || !t->slots[o->s].ptr) { lg(t, "R gt error=empty\n"); continue; }
            memset(&tms, 0, sizeof(tms));
            tm->t0 = now_ns();
            if(td->op->print_struct == GeneralizedTime_print)
                tt = asn_GT2time((const GeneralizedTime_t *)t->slots[o->s].ptr, &tms, 1);
            else if(td->op->print_struct == UTCTime_print)
                tt = asn_UT2time((const UTCTime_t *)t->slots[o->s].ptr, &tms, 1);
            tm->t1 = now_ns();
            lg(t, "R gt t=%lld y=%d mo=%d d=%d h=%d mi=%d s=%d\n", (long long)tt, tms.tm_year, tms.tm_mon, tms.tm_mday,
               tms.tm_hour, tms.tm_min, tms.tm_sec);
        } else if(!strcmp(o->name, "free")) {
            td = t->slots[o->s].td;
            tm->t0 = now_ns();
            if(t->slots[o->s].ptr) ASN_STRUCT_FREE(*td, t->slots[o->s].ptr);
            tm->t1 = now_ns();
            t->slots[o->s].ptr = 0;
            lg(t, "R free\n");
        } else {
            lg(t, "R %s error=unknownop\n", o->name);
            continue;
        }
        tm->type = td ? td->name : "-";
        t->ntm++;
    }
    /* leave nothing behind */
    for(i = 0; i < NSLOTS; i++)
        if(t->slots[i].ptr) { ASN_STRUCT_FREE(*t->slots[i].td, t->slots[i].ptr); t->slots[i].ptr = 0; }
}

static void *thread_main(void *arg) {
    struct thr *t = arg;
    pthread_barrier_wait(&barrier);
    run_thread_ops(t);
    return 0;
}

static const char *kv(char **toks, int n, const char *key) {
    size_t kl = strlen(key);
    int i;
    for(i = 0; i < n; i++)
        if(!strncmp(toks[i], key, kl) && toks[i][kl] == '=') return toks[i] + kl + 1;
    return 0;
}

static int hexval(int c) {
    if(c >= '0' && c <= '9') return c - '0';
    if(c >= 'a' && c <= 'f') return c - 'a' + 10;
    if(c >= 'A' && c <= 'F') return c - 'A' + 10;
    return -1;
}

int main(int argc, char **argv) {
    FILE *f;
    char *line = 0;
    size_t cap = 0;
    ssize_t len;
    int seq = 0, i;
    struct thr *cur = 0;
    size_t opcap = 0;
    if(argc < 2) { fprintf(stderr, "usage: tdriver <script> [seq] [jitter=<seed>]\n"); return 2; }
    for(i = 2; i < argc; i++) {
        if(!strcmp(argv[i], "seq")) seq = 1;
        else if(!strncmp(argv[i], "jitter=", 7)) { jitter_on = 1; jitter_seed = (unsigned)strtoul(argv[i] + 7, 0, 10); }
    }
    f = fopen(argv[1], "r");
    if(!f) { perror(argv[1]); return 2; }
    while((len = getline(&line, &cap, f)) > 0) {
        char *toks[16];
        int n = 0;
        char *p;
        const char *v;
        struct op *o;
        while(len > 0 && (line[len - 1] == '\n' || line[len - 1] == '\r')) line[--len] = 0;
        if(!line[0] || line[0] == '#') continue;
        for(p = strtok(line, " "); p && n < 16; p = strtok(0, " ")) toks[n++] = p;
        if(!strcmp(toks[0], "T")) {
            if(nthr >= MAXTHR) { fprintf(stderr, "too many threads\n"); return 2; }
            cur = &thrs[nthr++];
            memset(cur, 0, sizeof(*cur));
            cur->tid = atoi(toks[1]);
            cur->logcap = 1 << 16;
            cur->log = malloc(cur->logcap);
            cur->log[0] = 0;
            cur->rnd = jitter_seed * 2654435761u + (unsigned)cur->tid * 40503u + 1;
            opcap = 0;
            continue;
        }
        if(!cur) { fprintf(stderr, "op before T\n"); return 2; }
        if(cur->nops == opcap) {
            opcap = opcap * 2 + 64;
            cur->ops = realloc(cur->ops, opcap * sizeof(struct op));
        }
        o = &cur->ops[cur->nops++];
        memset(o, 0, sizeof(*o));
        snprintf(o->name, sizeof(o->name), "%s", toks[0]);
        if((v = kv(toks, n, "s"))) o->s = atoi(v);
        if((v = kv(toks, n, "a"))) o->a = atoi(v);
        if((v = kv(toks, n, "b"))) o->b = atoi(v);
        if(o->s < 0 || o->s >= NSLOTS || o->a < 0 || o->a >= NSLOTS || o->b < 0 || o->b >= NSLOTS) { fprintf(stderr, "bad slot\n"); return 2; }
        if((v = kv(toks, n, "t"))) {
            o->td = find_pdu(v);
            if(!o->td) { fprintf(stderr, "unknown pdu %s\n", v); return 2; }
        }
        if((v = kv(toks, n, "syn"))) {
            snprintf(o->synname, sizeof(o->synname), "%s", v);
            o->syn = syn_of(v, !strcmp(o->name, "dec"));
            if(o->syn == ATS_INVALID) { fprintf(stderr, "bad syntax %s\n", v); return 2; }
        }
        if((v = kv(toks, n, "in")) && strcmp(v, "-")) {
            size_t hl = strlen(v), j;
            o->in = malloc(hl / 2 + 1);
            for(j = 0; j + 1 < hl; j += 2) o->in[j / 2] = (unsigned char)((hexval(v[j]) << 4) | hexval(v[j + 1]));
            o->inlen = hl / 2;
        } else if(!strcmp(o->name, "dec")) {
            o->in = malloc(1);
            o->inlen = 0;
        }
    }
    fclose(f);
    free(line);
    for(i = 0; i < nthr; i++) thrs[i].tm = calloc(thrs[i].nops + 1, sizeof(struct timing));
    if(seq) {
        for(i = 0; i < nthr; i++) run_thread_ops(&thrs[i]);
    } else {
        pthread_barrier_init(&barrier, 0, (unsigned)nthr);
        for(i = 0; i < nthr; i++)
            if(pthread_create(&thrs[i].th, 0, thread_main, &thrs[i])) { perror("pthread_create"); return 2; }
        for(i = 0; i < nthr; i++) pthread_join(thrs[i].th, 0);
        pthread_barrier_destroy(&barrier);
    }
    for(i = 0; i < nthr; i++) {
        printf("T %d\n", thrs[i].tid);
        fwrite(thrs[i].log, 1, thrs[i].loglen, stdout);
    }
    for(i = 0; i < nthr; i++) {
        size_t j;
        for(j = 0; j < thrs[i].ntm; j++)
            printf("t %d %d %s %s %lld %lld\n", thrs[i].tid, thrs[i].tm[j].opidx, thrs[i].tm[j].op, thrs[i].tm[j].type,
                   thrs[i].tm[j].t0, thrs[i].tm[j].t1);
    }
    printf("DONE\n");
    return 0;
}
