/*
 * Allocation ledger: link-time wrappers (-Wl,--wrap=malloc,...) around the
 * libc allocator names that the asn1c skeletons' MALLOC/CALLOC/REALLOC/FREEMEM
 * macros expand to.  Tracks allocations performed while a library call is
 * open (ledger_open > 0), their release at any later time, peak bytes, and
 * can fail the k-th allocation of the current call.
 *
 * Single-threaded use only (the C19 driver does not link it).
 */
#include <stdio.h>
#include <stdlib.h>
#include <string.h>
#include <stdint.h>

void *__real_malloc(size_t);
void *__real_calloc(size_t, size_t);
void *__real_realloc(void *, size_t);
void __real_free(void *);

int ledger_open = 0;            /* >0: inside a library call */
long ledger_fail_at = -1;       /* fail the k-th (1-based) allocation in call */
long ledger_alloc_seq = 0;      /* allocations seen in the current call */
long ledger_fail_fired = 0;
void *ledger_fail_site = 0;
long ledger_live = 0;
long ledger_live_bytes = 0;
long ledger_peak_bytes = 0;
long ledger_total_allocs = 0;
long ledger_total_frees = 0;
size_t ledger_max_request = 0;
/* optional ceiling on the bytes held inside a call (VDRV_HEAPCAP): a request that would pass it is refused like any
 * other allocation failure and is booked into the peak, so that a decoder on its way to exhausting the machine is
 * stopped and reported by its peak instead of by the kernel */
long ledger_cap_bytes = -1;
long ledger_cap_hits = 0;

struct ent { void *p; size_t sz; };
static struct ent *tab = 0;
static size_t tab_cap = 0, tab_used = 0, tab_tomb = 0;
#define TOMB ((void *)1)

static size_t hp(void *p) {
    uintptr_t x = (uintptr_t)p;
    x ^= x >> 17; x *= 0x9E3779B97F4A7C15ull; x ^= x >> 29;
    return (size_t)x;
}

static void tab_grow(void) {
    size_t ncap = tab_cap ? tab_cap * 2 : 4096;
    struct ent *nt = __real_calloc(ncap, sizeof(*nt));
    size_t i;
    if(!nt) { fprintf(stderr, "ledger: out of memory\n"); _Exit(9); }
    for(i = 0; i < tab_cap; i++) {
        if(tab[i].p && tab[i].p != TOMB) {
            size_t j = hp(tab[i].p) & (ncap - 1);
            while(nt[j].p) j = (j + 1) & (ncap - 1);
            nt[j] = tab[i];
        }
    }
    __real_free(tab);
    tab = nt; tab_cap = ncap; tab_tomb = 0;
}

static void tab_add(void *p, size_t sz) {
    size_t j;
    if((tab_used + tab_tomb + 1) * 2 > tab_cap) tab_grow();
    j = hp(p) & (tab_cap - 1);
    while(tab[j].p && tab[j].p != TOMB) j = (j + 1) & (tab_cap - 1);
    if(tab[j].p == TOMB) tab_tomb--;
    tab[j].p = p; tab[j].sz = sz;
    tab_used++;
    ledger_live++;
    ledger_live_bytes += (long)sz;
    if(ledger_live_bytes > ledger_peak_bytes) ledger_peak_bytes = ledger_live_bytes;
}

static size_t tab_lastsz;
static int tab_del(void *p) {
    size_t j, n;
    if(!tab_cap) return 0;
    j = hp(p) & (tab_cap - 1);
    for(n = 0; n < tab_cap && tab[j].p; n++, j = (j + 1) & (tab_cap - 1)) {
        if(tab[j].p == p) {
            ledger_live--;
            ledger_live_bytes -= (long)tab[j].sz;
            tab_lastsz = tab[j].sz;
            tab[j].p = TOMB; tab[j].sz = 0;
            tab_used--; tab_tomb++;
            return 1;
        }
    }
    return 0;
}

static int over_cap(size_t sz) {
    if(!ledger_open) return 0;
    if(ledger_cap_bytes < 0) {
        const char *e = getenv("VDRV_HEAPCAP");
        ledger_cap_bytes = e ? atol(e) : 0;
    }
    if(ledger_cap_bytes > 0 && (sz > (size_t)ledger_cap_bytes || ledger_live_bytes + (long)sz > ledger_cap_bytes)) {
        long want = (sz > (size_t)1 << 62) ? ledger_cap_bytes : ledger_live_bytes + (long)sz;
        if(want > ledger_peak_bytes) ledger_peak_bytes = want;
        ledger_cap_hits++;
        return 1;
    }
    return 0;
}

static int should_fail(void *site) {
    if(!ledger_open) return 0;
    ledger_alloc_seq++;
    if(ledger_fail_at > 0 && ledger_alloc_seq == ledger_fail_at) {
        ledger_fail_fired++;
        ledger_fail_site = site;
        return 1;
    }
    return 0;
}

void *__wrap_malloc(size_t sz) {
    void *p;
    if(ledger_open && sz > ledger_max_request) ledger_max_request = sz;
    if(should_fail(__builtin_return_address(0))) return 0;
    if(over_cap(sz)) return 0;
    p = __real_malloc(sz);
    if(p && ledger_open) { tab_add(p, sz); ledger_total_allocs++; }
    return p;
}

void *__wrap_calloc(size_t n, size_t sz) {
    void *p;
    if(ledger_open && sz && n * sz > ledger_max_request) ledger_max_request = n * sz;
    if(should_fail(__builtin_return_address(0))) return 0;
    if(over_cap(n * sz)) return 0;
    p = __real_calloc(n, sz);
    if(p && ledger_open) { tab_add(p, n * sz); ledger_total_allocs++; }
    return p;
}

void *__wrap_realloc(void *old, size_t sz) {
    void *p;
    int tracked;
    if(ledger_open && sz > ledger_max_request) ledger_max_request = sz;
    if(should_fail(__builtin_return_address(0))) return 0;
    if(over_cap(sz)) return 0;
    size_t oldsz;
    tracked = old ? tab_del(old) : 0;
    oldsz = tracked ? tab_lastsz : 0;
    p = __real_realloc(old, sz);
    if(!p) {
        if(tracked && sz != 0) tab_add(old, oldsz);   /* still live */
        return 0;
    }
    if(tracked || (ledger_open && !old)) {
        tab_add(p, sz);
        if(!tracked) ledger_total_allocs++;
    } else if(ledger_open && old) {
        /* growth of an untracked block inside a call: start tracking */
        tab_add(p, sz);
        ledger_total_allocs++;
    }
    return p;
}

void __wrap_free(void *p) {
    if(p && tab_del(p)) ledger_total_frees++;
    __real_free(p);
}

void ledger_call_begin(long fail_at) {
    ledger_open = 1;
    ledger_alloc_seq = 0;
    ledger_fail_at = fail_at;
    ledger_fail_fired = 0;
    ledger_fail_site = 0;
    ledger_peak_bytes = ledger_live_bytes;
    ledger_max_request = 0;
}

void ledger_call_end(void) {
    ledger_open = 0;
    ledger_fail_at = -1;
}

/* first few live pointers, for diagnostics */
int ledger_dump_live(char *buf, size_t bufsz) {
    size_t i, n = 0, off = 0;
    buf[0] = 0;
    for(i = 0; i < tab_cap && n < 4; i++) {
        if(tab[i].p && tab[i].p != TOMB) {
            off += snprintf(buf + off, bufsz - off, "%s%zu", n ? "," : "", tab[i].sz);
            n++;
        }
    }
    return (int)n;
}

/* forget everything still live (after a reported leak, to keep going) */
void ledger_forget(void) {
    size_t i;
    for(i = 0; i < tab_cap; i++) { tab[i].p = 0; tab[i].sz = 0; }
    tab_used = tab_tomb = 0;
    ledger_live = 0; ledger_live_bytes = 0;
}
