/*
 * Generic codec driver: linked with one asn1c-generated module (all PDUs via
 * asn_pdu_collection[]) and the skeleton library of the tree under test.
 * Reads a script (argv[1] or stdin), one operation per line, writes one
 * result line per operation (flushed).  It touches generated types only
 * through asn_TYPE_descriptor_t, so the same source serves every option set.
 *
 * See DESIGN.md Appendix C for the grammar.
 */
#define _GNU_SOURCE
#include <stdio.h>
#include <stdlib.h>
#include <string.h>
#include <errno.h>
#include <signal.h>
#include <unistd.h>
#include <pthread.h>
#include <sys/time.h>
#include <sys/resource.h>

#include <asn_application.h>
#include <asn_internal.h>
#include <der_encoder.h>
#ifndef ASN_DISABLE_PER_SUPPORT
#include <per_encoder.h>
#endif
#ifndef ASN_DISABLE_OER_SUPPORT
#include <oer_encoder.h>
#endif
#include <constr_SEQUENCE.h>
#include <constr_SET.h>
#include <constr_CHOICE.h>
#include <constr_SET_OF.h>
#include <constr_SEQUENCE_OF.h>
#include <asn_SET_OF.h>
#include <OCTET_STRING.h>
#include <BIT_STRING.h>
#include <INTEGER.h>
#include <ENUMERATED.h>
#include <NativeInteger.h>
#include <NativeEnumerated.h>
#include <NativeReal.h>
#include <REAL.h>
#include <BOOLEAN.h>
#include <NULL.h>
#include <OBJECT_IDENTIFIER.h>
#include <RELATIVE-OID.h>
#include <OPEN_TYPE.h>
#include <ANY.h>
#include <BMPString.h>
#include <UniversalString.h>
#include <UTF8String.h>
#include <GeneralizedTime.h>
#include <UTCTime.h>
#include <asn_random_fill.h>

extern asn_TYPE_descriptor_t *asn_pdu_collection[];

#ifdef VDRV_WEAK
/* C10 links the driver against exactly the file set asn1c delivered, which contains only the support
 * code the module needs: every type-specific symbol is referenced weakly. */
#pragma weak asn_OP_SEQUENCE
#pragma weak asn_OP_SET
#pragma weak asn_OP_CHOICE
#pragma weak asn_OP_SET_OF
#pragma weak asn_OP_SEQUENCE_OF
#pragma weak asn_OP_OPEN_TYPE
#pragma weak asn_OP_INTEGER
#pragma weak asn_OP_ENUMERATED
#pragma weak asn_OP_NativeInteger
#pragma weak asn_OP_NativeEnumerated
#pragma weak asn_OP_NativeReal
#pragma weak asn_OP_REAL
#pragma weak asn_OP_BOOLEAN
#pragma weak asn_OP_NULL
#pragma weak asn_OP_OBJECT_IDENTIFIER
#pragma weak asn_OP_RELATIVE_OID
#pragma weak asn_OP_BIT_STRING
#pragma weak asn_OP_ANY
#pragma weak OCTET_STRING_free
#pragma weak asn_random_fill
#pragma weak oer_encode_to_buffer
#pragma weak uper_encode_to_buffer
#pragma weak uper_encode_to_new_buffer
#endif

/* ledger (weak: absent in TSan builds) */
extern void ledger_call_begin(long) __attribute__((weak));
extern void ledger_call_end(void) __attribute__((weak));
extern void ledger_forget(void) __attribute__((weak));
extern int ledger_dump_live(char *, size_t) __attribute__((weak));
extern int ledger_open __attribute__((weak));
extern long ledger_live __attribute__((weak));
extern long ledger_live_bytes __attribute__((weak));
extern long ledger_peak_bytes __attribute__((weak));
extern long ledger_alloc_seq __attribute__((weak));
extern long ledger_fail_fired __attribute__((weak));
extern void *ledger_fail_site __attribute__((weak));
extern size_t ledger_max_request __attribute__((weak));

#define HAVE_LEDGER (ledger_call_begin != 0)

static long g_oom = -1;     /* armed for next library call */
static long g_case = -1;
static int g_wd = 20;
static FILE *g_null;

static long g_live_before;
static void lib_begin(void) {
    if(HAVE_LEDGER) { g_live_before = ledger_live; ledger_call_begin(g_oom); }
    errno = 0;
}
static void lib_end(void) {
    if(HAVE_LEDGER) ledger_call_end();
}

/* ------------------------------------------------------------------ */
/* slots */
#define NSLOTS 24
static struct slot { void *ptr; asn_TYPE_descriptor_t *td; } slots[NSLOTS];

/* byte registers: encoder output kept for a later decode (chains) */
#define NREGS 8
static struct reg { unsigned char *b; size_t n; int valid; } regs[NREGS];
static void reg_store(long r, const void *b, size_t n) {
    if(r < 0 || r >= NREGS) return;
    free(regs[r].b);
    regs[r].b = malloc(n ? n : 1);
    if(n) memcpy(regs[r].b, b, n);
    regs[r].n = n; regs[r].valid = 1;
}

/* ------------------------------------------------------------------ */
/* helpers */
static const char *arg(char **kv, int n, const char *key) {
    size_t kl = strlen(key);
    int i;
    for(i = 0; i < n; i++)
        if(!strncmp(kv[i], key, kl) && kv[i][kl] == '=') return kv[i] + kl + 1;
    return 0;
}
static long argl(char **kv, int n, const char *key, long dflt) {
    const char *v = arg(kv, n, key);
    return v ? strtol(v, 0, 0) : dflt;
}

static int hexval(int c) {
    if(c >= '0' && c <= '9') return c - '0';
    if(c >= 'a' && c <= 'f') return c - 'a' + 10;
    if(c >= 'A' && c <= 'F') return c - 'A' + 10;
    return -1;
}
/* returns exact-size malloc'ed buffer (1 byte minimum for a valid pointer) */
static unsigned char *unhex(const char *h, size_t *n) {
    size_t l = h ? strlen(h) : 0, i;
    unsigned char *b;
    if(l == 1 && h[0] == '-') l = 0;
    *n = l / 2;
    b = malloc(*n ? *n : 1);
    for(i = 0; i < *n; i++) b[i] = (unsigned char)(hexval(h[2 * i]) << 4 | hexval(h[2 * i + 1]));
    return b;
}
static void puthex(FILE *f, const void *p, size_t n) {
    static const char d[] = "0123456789abcdef";
    const unsigned char *b = p;
    size_t i;
    if(n == 0) { fputc('-', f); return; }
    for(i = 0; i < n; i++) { fputc(d[b[i] >> 4], f); fputc(d[b[i] & 15], f); }
}

static asn_TYPE_descriptor_t *find_pdu(const char *name) {
    int i;
    for(i = 0; asn_pdu_collection[i]; i++)
        if(!strcmp(asn_pdu_collection[i]->name, name)) return asn_pdu_collection[i];
    return 0;
}

static int syntax_of(const char *s, int decode) {
    if(!s) return ATS_INVALID;
    if(!strcmp(s, "BER")) return ATS_BER;
    if(!strcmp(s, "DER")) return decode ? ATS_BER : ATS_DER;
    if(!strcmp(s, "OER")) return decode ? ATS_BASIC_OER : ATS_CANONICAL_OER;
    if(!strcmp(s, "UPER")) return decode ? ATS_UNALIGNED_BASIC_PER : ATS_UNALIGNED_CANONICAL_PER;
    if(!strcmp(s, "BXER")) return ATS_BASIC_XER;
    if(!strcmp(s, "CXER")) return ATS_CANONICAL_XER;
    if(!strcmp(s, "TEXT")) return ATS_NONSTANDARD_PLAINTEXT;
    if(!strcmp(s, "CER")) return ATS_CER;
    if(!strcmp(s, "RANDOM")) return ATS_RANDOM;
    return ATS_INVALID;
}

static const char *rcname(int c) {
    return c == RC_OK ? "OK" : c == RC_WMORE ? "WMORE" : c == RC_FAIL ? "FAIL" : "ILLEGAL";
}

/* ------------------------------------------------------------------ */
/* type kinds */
enum kind { K_UNKNOWN, K_SEQUENCE, K_SET, K_CHOICE, K_SET_OF, K_SEQUENCE_OF, K_OPEN,
            K_INTEGER, K_ENUMERATED, K_NINT, K_NENUM, K_NREAL, K_REAL, K_BOOLEAN, K_NULL,
            K_OID, K_ROID, K_BITSTR, K_OCTSTR, K_ANY };

static enum kind kind_of(const asn_TYPE_descriptor_t *td) {
    const asn_TYPE_operation_t *op = td->op;
    if(op == &asn_OP_SEQUENCE) return K_SEQUENCE;
    if(op == &asn_OP_SET) return K_SET;
    if(op == &asn_OP_CHOICE) return K_CHOICE;
    if(op == &asn_OP_SET_OF) return K_SET_OF;
    if(op == &asn_OP_SEQUENCE_OF) return K_SEQUENCE_OF;
    if(op == &asn_OP_OPEN_TYPE) return K_OPEN;
    if(op == &asn_OP_INTEGER) return K_INTEGER;
    if(op == &asn_OP_ENUMERATED) return K_ENUMERATED;
    if(op == &asn_OP_NativeInteger) return K_NINT;
    if(op == &asn_OP_NativeEnumerated) return K_NENUM;
    if(op == &asn_OP_NativeReal) return K_NREAL;
    if(op == &asn_OP_REAL) return K_REAL;
    if(op == &asn_OP_BOOLEAN) return K_BOOLEAN;
    if(op == &asn_OP_NULL) return K_NULL;
    if(op == &asn_OP_OBJECT_IDENTIFIER) return K_OID;
    if(op == &asn_OP_RELATIVE_OID) return K_ROID;
    if(op == &asn_OP_BIT_STRING) return K_BITSTR;
    if(op == &asn_OP_ANY) return K_ANY;
    if(op->free_struct == OCTET_STRING_free) return K_OCTSTR;
    return K_UNKNOWN;
}

static const char *kind_name(enum kind k) {
    static const char *n[] = {"UNKNOWN", "SEQUENCE", "SET", "CHOICE", "SET_OF", "SEQUENCE_OF", "OPEN",
        "INTEGER", "ENUMERATED", "NINT", "NENUM", "NREAL", "REAL", "BOOLEAN", "NULL", "OID", "ROID",
        "BITSTR", "OCTSTR", "ANY"};
    return n[k];
}

static size_t struct_size_of(const asn_TYPE_descriptor_t *td) {
    switch(kind_of(td)) {
    case K_SEQUENCE: return ((const asn_SEQUENCE_specifics_t *)td->specifics)->struct_size;
    case K_SET: return ((const asn_SET_specifics_t *)td->specifics)->struct_size;
    case K_CHOICE: case K_OPEN: return ((const asn_CHOICE_specifics_t *)td->specifics)->struct_size;
    case K_SET_OF: case K_SEQUENCE_OF: return ((const asn_SET_OF_specifics_t *)td->specifics)->struct_size;
    case K_INTEGER: case K_ENUMERATED: case K_REAL: case K_OID: case K_ROID:
        return sizeof(ASN__PRIMITIVE_TYPE_t);
    case K_NINT: case K_NENUM: return sizeof(long);
    case K_NREAL: {
        const asn_NativeReal_specifics_t *s = td->specifics;
        return (s && s->float_size == sizeof(float)) ? sizeof(float) : sizeof(double);
    }
    case K_BOOLEAN: return sizeof(BOOLEAN_t);
    case K_NULL: return sizeof(NULL_t);
    case K_BITSTR: case K_OCTSTR: case K_ANY: {
        const asn_OCTET_STRING_specifics_t *s = td->specifics;
        return s ? s->struct_size : sizeof(OCTET_STRING_t);
    }
    default: return 0;
    }
}

static const asn_struct_ctx_t *ctx_of(const asn_TYPE_descriptor_t *td, const void *sptr) {
    unsigned off;
    if(!sptr) return 0;
    switch(kind_of(td)) {
    case K_SEQUENCE: off = ((const asn_SEQUENCE_specifics_t *)td->specifics)->ctx_offset; break;
    case K_SET: off = ((const asn_SET_specifics_t *)td->specifics)->ctx_offset; break;
    case K_CHOICE: case K_OPEN: off = ((const asn_CHOICE_specifics_t *)td->specifics)->ctx_offset; break;
    case K_SET_OF: case K_SEQUENCE_OF: off = ((const asn_SET_OF_specifics_t *)td->specifics)->ctx_offset; break;
    case K_BITSTR: case K_OCTSTR: case K_ANY: {
        const asn_OCTET_STRING_specifics_t *s = td->specifics;
        off = s ? s->ctx_offset : offsetof(OCTET_STRING_t, _asn_ctx); break;
    }
    default: return 0;
    }
    return (const asn_struct_ctx_t *)((const char *)sptr + off);
}

static unsigned choice_present(const asn_TYPE_descriptor_t *td, const void *sptr) {
    const asn_CHOICE_specifics_t *s = td->specifics;
    const void *p = (const char *)sptr + s->pres_offset;
    switch(s->pres_size) {
    case sizeof(int): return *(const unsigned int *)p;
    case sizeof(short): return *(const unsigned short *)p;
    case sizeof(char): return *(const unsigned char *)p;
    default: return 0;
    }
}
static void choice_set_present(const asn_TYPE_descriptor_t *td, void *sptr, unsigned v) {
    const asn_CHOICE_specifics_t *s = td->specifics;
    void *p = (char *)sptr + s->pres_offset;
    switch(s->pres_size) {
    case sizeof(int): *(unsigned int *)p = v; break;
    case sizeof(short): *(unsigned short *)p = (unsigned short)v; break;
    case sizeof(char): *(unsigned char *)p = (unsigned char)v; break;
    }
}

/* ------------------------------------------------------------------ */
/* struct walker with transformations */
struct xf {
    const char *kind;
    unsigned seed;
    int count;      /* how many sites were changed */
    int limit;      /* max sites to change (0 = all) */
    int skip;       /* sites to skip first */
    int depth;
    const char *name;   /* kind=nullnamed: the member to take away */
};
static unsigned xrnd(struct xf *x) {
    x->seed = x->seed * 1103515245u + 12345u;
    return (x->seed >> 8) & 0xffffff;
}
static int xf_take(struct xf *x) {
    if(x->skip > 0) { x->skip--; return 0; }
    if(x->limit && x->count >= x->limit) return 0;
    x->count++;
    return 1;
}

static void walk(asn_TYPE_descriptor_t *td, void *sptr, struct xf *x);

static void walk_member(asn_TYPE_descriptor_t *td, void *sptr, asn_TYPE_member_t *el, struct xf *x) {
    void *memb;
    (void)td;
    if(el->flags & ATF_POINTER) {
        void **pp = (void **)((char *)sptr + el->memb_offset);
        if(!*pp) {
            if(!strcmp(x->kind, "default") && el->default_value_set && xf_take(x)) {
                lib_begin();
                el->default_value_set(pp);
                lib_end();
            }
            return;
        }
        if(!strcmp(x->kind, "nullnamed") && x->name && !strcmp(el->name, x->name) && xf_take(x)) {
            /* the member of that name, held by pointer, forcibly absent -- whatever the descriptor says about it:
             * the caller knows from the specification whether it is mandatory */
            ASN_STRUCT_FREE(*el->type, *pp);
            *pp = 0;
            return;
        }
        if(!strcmp(x->kind, "nullptr") && !el->optional && xf_take(x)) {
            /* mandatory pointer member forcibly absent (leaks on purpose: free it) */
            ASN_STRUCT_FREE(*el->type, *pp);
            *pp = 0;
            return;
        }
        if(!strcmp(x->kind, "dropopt") && el->optional && xf_take(x)) {
            ASN_STRUCT_FREE(*el->type, *pp);
            *pp = 0;
            return;
        }
        memb = *pp;
    } else {
        memb = (char *)sptr + el->memb_offset;
    }
    walk(el->type, memb, x);
}

static void walk(asn_TYPE_descriptor_t *td, void *sptr, struct xf *x) {
    enum kind k = kind_of(td);
    unsigned i;
    if(!sptr || x->depth > 200) return;
    x->depth++;
    switch(k) {
    case K_SEQUENCE: case K_SET:
        for(i = 0; i < td->elements_count; i++) walk_member(td, sptr, &td->elements[i], x);
        break;
    case K_CHOICE: case K_OPEN: {
        unsigned pres = choice_present(td, sptr);
        if(!strcmp(x->kind, "unselect") && k == K_CHOICE && pres && xf_take(x)) {
            /* free the member, then unselect */
            asn_TYPE_member_t *el = &td->elements[pres - 1];
            if(el->flags & ATF_POINTER) {
                void **pp = (void **)((char *)sptr + el->memb_offset);
                ASN_STRUCT_FREE(*el->type, *pp); *pp = 0;
            } else {
                ASN_STRUCT_FREE_CONTENTS_ONLY(*el->type, (char *)sptr + el->memb_offset);
            }
            choice_set_present(td, sptr, 0);
            break;
        }
        if(!strcmp(x->kind, "badpresent") && k == K_CHOICE && pres && xf_take(x)) {
            asn_TYPE_member_t *el = &td->elements[pres - 1];
            if(el->flags & ATF_POINTER) {
                void **pp = (void **)((char *)sptr + el->memb_offset);
                ASN_STRUCT_FREE(*el->type, *pp); *pp = 0;
            } else {
                ASN_STRUCT_FREE_CONTENTS_ONLY(*el->type, (char *)sptr + el->memb_offset);
            }
            choice_set_present(td, sptr, td->elements_count + 1);
            break;
        }
        if(pres >= 1 && pres <= td->elements_count) walk_member(td, sptr, &td->elements[pres - 1], x);
        break;
    }
    case K_SET_OF: case K_SEQUENCE_OF: {
        asn_anonymous_set_ *list = _A_SET_FROM_VOID(sptr);
        int n = list->count, j;
        if(k == K_SET_OF && !strcmp(x->kind, "permute") && n > 1 && xf_take(x)) {
            for(j = n - 1; j > 0; j--) {
                int r = (int)(xrnd(x) % (unsigned)(j + 1));
                void *t = list->array[j]; list->array[j] = list->array[r]; list->array[r] = t;
            }
        }
        if(k == K_SET_OF && !strcmp(x->kind, "reverse") && n > 1 && xf_take(x)) {
            for(j = 0; j < n / 2; j++) {
                void *t = list->array[j]; list->array[j] = list->array[n - 1 - j]; list->array[n - 1 - j] = t;
            }
        }
        for(j = 0; j < list->count; j++) walk(td->elements[0].type, list->array[j], x);
        break;
    }
    case K_NREAL: {
        /* a NaN with the other sign bit is the same abstract value NOT-A-NUMBER */
        const asn_NativeReal_specifics_t *ns = td->specifics;
        if(!strcmp(x->kind, "nansign")) {
            if(ns && ns->float_size == sizeof(float)) {
                float f; uint32_t u;
                memcpy(&f, sptr, sizeof(f));
                if(f != f && xf_take(x)) { memcpy(&u, &f, sizeof(u)); u ^= 0x80000000u; memcpy(sptr, &u, sizeof(u)); }
            } else {
                double d; uint64_t u;
                memcpy(&d, sptr, sizeof(d));
                if(d != d && xf_take(x)) { memcpy(&u, &d, sizeof(u)); u ^= 0x8000000000000000ull; memcpy(sptr, &u, sizeof(u)); }
            }
        }
        break;
    }
    case K_INTEGER: case K_ENUMERATED: {
        INTEGER_t *st = sptr;
        if(!strcmp(x->kind, "padint") && st->buf && st->size > 0 && xf_take(x)) {
            int pad = 1 + (int)(xrnd(x) % 3);
            uint8_t fill = (st->buf[0] & 0x80) ? 0xff : 0x00;
            uint8_t *nb = MALLOC((size_t)st->size + (size_t)pad + 1);
            memset(nb, fill, (size_t)pad);
            memcpy(nb + pad, st->buf, (size_t)st->size);
            nb[pad + st->size] = 0;
            FREEMEM(st->buf);
            st->buf = nb; st->size += pad;
        }
        if(!strcmp(x->kind, "emptyint") && xf_take(x)) {
            st->size = 0;
        }
        break;
    }
    case K_BITSTR: {
        BIT_STRING_t *st = sptr;
        if(!strcmp(x->kind, "dirtybits") && st->buf && st->size > 0 && st->bits_unused > 0
           && st->bits_unused < 8 && xf_take(x)) {
            st->buf[st->size - 1] |= (uint8_t)((1u << st->bits_unused) - 1u) & (uint8_t)(xrnd(x) | 1u);
        }
        if(!strcmp(x->kind, "badunused") && xf_take(x)) {
            st->bits_unused = 9;
        }
        break;
    }
    case K_OCTSTR: {
        OCTET_STRING_t *st = sptr;
        const asn_OCTET_STRING_specifics_t *s = td->specifics;
        if(!strcmp(x->kind, "oddwide") && s && (s->subvariant == ASN_OSUBV_U16 || s->subvariant == ASN_OSUBV_U32)
           && st->buf && st->size > 1 && xf_take(x)) {
            st->size -= 1;
        }
        if(!strcmp(x->kind, "nullbuf") && st->buf && xf_take(x)) {
            FREEMEM(st->buf); st->buf = 0; st->size = 0;
        }
        break;
    }
    default: break;
    }
    x->depth--;
}

/* count nodes / detect features */
struct stat_s { int nodes, setofs, ints, bitstr, defaults_absent, choices; };

/* ------------------------------------------------------------------ */
/* encode callback */
struct cbk {
    unsigned char *buf; size_t len, cap;
    long calls, bytes; long fail_at;    /* -1: never */
    int failed;
};
static int cb_collect(const void *data, size_t size, void *keyp) {
    struct cbk *k = keyp;
    if(k->fail_at >= 0 && k->calls >= k->fail_at) { k->calls++; k->failed = 1; return -1; }
    k->calls++;
    if(k->len + size > k->cap) {
        size_t nc = k->cap ? k->cap * 2 : 256;
        int save = 0;
        while(nc < k->len + size) nc *= 2;
        /* the collector's own buffer is not a library allocation */
        if(HAVE_LEDGER) { save = ledger_open; ledger_open = 0; }
        k->buf = realloc(k->buf, nc); k->cap = nc;
        if(HAVE_LEDGER) ledger_open = save;
    }
    /* read every byte handed to us (ASan checks the source range) */
    if(size) memcpy(k->buf + k->len, data, size);
    k->len += size; k->bytes += (long)size;
    return 0;
}

/* ------------------------------------------------------------------ */
static void print_ledger(FILE *o) {
    if(HAVE_LEDGER) {
        fprintf(o, " peak=%ld maxreq=%zu nalloc=%ld dlive=%ld", ledger_peak_bytes, ledger_max_request, ledger_alloc_seq,
                ledger_live - g_live_before);
        if(g_oom > 0) fprintf(o, " oomfired=%ld oomsite=%p", ledger_fail_fired, ledger_fail_site);
    }
}

/* ---- decode ------------------------------------------------------ */
struct dec_args {
    int syn; asn_TYPE_descriptor_t *td; void **sptr;
    const unsigned char *in; size_t n;
    const char *chunks; int rest; long stack; int with_ctx;
    /* results */
    int rc; size_t consumed; int calls; int anomaly;
    char trace[512]; char ctxs[512];
};

static void note_ctx(struct dec_args *a) {
    const asn_struct_ctx_t *c = ctx_of(a->td, *a->sptr);
    char one[64];
    if(!c) return;
    snprintf(one, sizeof(one), "%d.%d.%c", c->phase, c->step, c->left < 0 ? 'n' : c->left == 0 ? 'z' : 'p');
    if(!strstr(a->ctxs, one) && strlen(a->ctxs) + strlen(one) + 2 < sizeof(a->ctxs)) {
        if(a->ctxs[0]) strcat(a->ctxs, ",");
        strcat(a->ctxs, one);
    }
}

static void do_decode(struct dec_args *a) {
    asn_codec_ctx_t cctx, *pctx = 0;
    asn_dec_rval_t rv;
    size_t off = 0, end = 0;
    const char *cp = a->chunks;
    int done_chunks = 0;
    if(a->stack >= 0) { memset(&cctx, 0, sizeof(cctx)); cctx.max_stack_size = (size_t)a->stack; pctx = &cctx; }
    a->rc = -99; a->consumed = 0; a->calls = 0; a->anomaly = 0; a->trace[0] = 0; a->ctxs[0] = 0;
    if(!cp) {
        unsigned char *b = malloc(a->n ? a->n : 1);
        if(a->n) memcpy(b, a->in, a->n);
        lib_begin();
        rv = asn_decode(pctx, a->syn, a->td, a->sptr, a->n ? b : (a->n == 0 ? b : 0), a->n);
        lib_end();
        free(b);
        a->rc = rv.code; a->consumed = rv.consumed; a->calls = 1;
        if(rv.code == RC_WMORE && a->with_ctx) note_ctx(a);
        return;
    }
    for(;;) {
        size_t step, present;
        unsigned char *b;
        char one[48];
        if(!done_chunks && *cp) {
            step = (size_t)strtoul(cp, (char **)&cp, 10);
            if(*cp == ',') cp++;
        } else {
            done_chunks = 1;
            if(!a->rest || end >= a->n) break;
            step = a->n - end;
        }
        end += step;
        if(end > a->n) end = a->n;
        present = end - off;
        b = malloc(present ? present : 1);
        if(present) memcpy(b, a->in + off, present);
        lib_begin();
        rv = asn_decode(pctx, a->syn, a->td, a->sptr, b, present);
        lib_end();
        free(b);
        a->calls++;
        a->rc = rv.code;
        snprintf(one, sizeof(one), "%s:%zu/%zu;", rcname(rv.code), rv.consumed, present);
        if(strlen(a->trace) + strlen(one) + 1 < sizeof(a->trace)) strcat(a->trace, one);
        if(rv.consumed > present) { a->anomaly = 1; a->consumed = off + rv.consumed; break; }
        off += rv.consumed;
        a->consumed = off;
        if(rv.code != RC_WMORE) break;
        if(a->with_ctx) note_ctx(a);
        if(a->calls > 200000) { a->anomaly = 2; break; }
    }
}

static void *dec_thread(void *p) { do_decode(p); return 0; }

/* ------------------------------------------------------------------ */
static void on_alarm(int sig) {
    char buf[64];
    int n = snprintf(buf, sizeof(buf), "\nHANG %ld\n", g_case);
    (void)sig;
    if(write(1, buf, (size_t)n) < 0) {}
    _exit(5);
}

static void arm_watchdog(int secs) {
    struct itimerval it;
    memset(&it, 0, sizeof(it));
    it.it_value.tv_sec = secs;
    setitimer(ITIMER_VIRTUAL, &it, 0);
}

/* ---- descriptor dump and consistency walk -------------------------- */
#ifndef ASN_DISABLE_PER_SUPPORT
static void dump_perc(FILE *o, const char *tag, const asn_per_constraint_t *c) {
    fprintf(o, " %s=%d,%d,%d,%ld,%ld", tag, (int)c->flags, c->range_bits, c->effective_bits,
            c->lower_bound, c->upper_bound);
}
#endif
static void dump_constraints(FILE *o, const asn_encoding_constraints_t *ec) {
#ifndef ASN_DISABLE_PER_SUPPORT
    if(ec->per_constraints) {
        dump_perc(o, "pv", &ec->per_constraints->value);
        dump_perc(o, "ps", &ec->per_constraints->size);
        fprintf(o, " pmap=%d", ec->per_constraints->value2code ? 1 : 0);
    } else
#endif
        fprintf(o, " pv=none");
#ifndef ASN_DISABLE_OER_SUPPORT
    if(ec->oer_constraints) {
        fprintf(o, " ov=%u,%u os=%ld", ec->oer_constraints->value.width, ec->oer_constraints->value.positive,
                (long)ec->oer_constraints->size);
    } else
#endif
        fprintf(o, " ov=none");
    fprintf(o, " gc=%d", ec->general_constraints ? 1 : 0);
}

static int g_descerr;
#define DERR(...) do { g_descerr++; fprintf(o, "R descerr "); fprintf(o, __VA_ARGS__); fprintf(o, "\n"); } while(0)

static int tag_cmp(ber_tlv_tag_t a, ber_tlv_tag_t b) {
    int ac = BER_TAG_CLASS(a), bc = BER_TAG_CLASS(b);
    if(ac != bc) return ac < bc ? -1 : 1;
    if(BER_TAG_VALUE(a) != BER_TAG_VALUE(b)) return BER_TAG_VALUE(a) < BER_TAG_VALUE(b) ? -1 : 1;
    return 0;
}

static const asn_TYPE_descriptor_t *seen_td[4096];
static int seen_n;

static void check_desc(FILE *o, const asn_TYPE_descriptor_t *td, int depth, int dump) {
    enum kind k;
    unsigned i;
    size_t ssz;
    for(i = 0; i < (unsigned)seen_n; i++) if(seen_td[i] == td) return;
    if(seen_n < 4096) seen_td[seen_n++] = td;
    if(!td->name) { DERR("noname"); return; }
    if(!td->op) { DERR("%s: no op", td->name); return; }
    k = kind_of(td);
    if(dump) {
        fprintf(o, "R desctype name=%s kind=%s tags=", td->name[0] ? td->name : "-", kind_name(k));
        for(i = 0; i < td->tags_count; i++) fprintf(o, "%s%u", i ? "," : "", (unsigned)td->tags[i]);
        if(!td->tags_count) fprintf(o, "-");
        fprintf(o, " alltags=");
        for(i = 0; i < td->all_tags_count; i++) fprintf(o, "%s%u", i ? "," : "", (unsigned)td->all_tags[i]);
        if(!td->all_tags_count) fprintf(o, "-");
        dump_constraints(o, &td->encoding_constraints);
        fprintf(o, " nel=%u\n", td->elements_count);
    }
    if(k == K_UNKNOWN) DERR("%s: unknown op table", td->name);
    /* an open type is decoded by its holder (OPEN_TYPE_*_get): its own decoder slots are empty by design */
    if(!td->op->free_struct || !td->op->print_struct || !td->op->compare_struct
       || (!td->op->ber_decoder && k != K_OPEN) || !td->op->der_encoder || (!td->op->xer_decoder && k != K_OPEN) || !td->op->xer_encoder)
        DERR("%s: missing basic op slot", td->name);
    if(!td->xml_tag) DERR("%s: no xml tag", td->name);
    if(td->tags_count > td->all_tags_count) DERR("%s: tags_count > all_tags_count", td->name);
    if(td->tags_count && !td->tags) DERR("%s: tags NULL", td->name);
#ifndef ASN_DISABLE_PER_SUPPORT
    if(td->encoding_constraints.per_constraints) {
        const asn_per_constraints_t *pc = td->encoding_constraints.per_constraints;
        const asn_per_constraint_t *cs[2] = { &pc->value, &pc->size };
        int j;
        for(j = 0; j < 2; j++) {
            const asn_per_constraint_t *c = cs[j];
            /* the value constraint of a string type describes its alphabet (range_bits = bits per mapped
             * character), only integer value ranges and all size ranges are plain intervals */
            if(j == 0 && !(k == K_INTEGER || k == K_NINT)) continue;
            if(c->flags & APC_CONSTRAINED) {
                if(c->lower_bound > c->upper_bound && !(td->specifics && (k == K_NINT || k == K_INTEGER)
                        && ((const asn_INTEGER_specifics_t *)td->specifics)->field_unsigned))
                    DERR("%s: per lb>ub", td->name);
                if(c->range_bits >= 0 && c->range_bits < 64) {
                    unsigned long range = (unsigned long)c->upper_bound - (unsigned long)c->lower_bound;
                    if(c->range_bits < 63 && c->range_bits >= 0 && range >> c->range_bits
                       && !(range >> c->range_bits == 1 && 0))
                        DERR("%s: per range_bits=%d too small for %ld..%ld", td->name, c->range_bits,
                             c->lower_bound, c->upper_bound);
                    if(c->range_bits > 0 && !((range >> (c->range_bits - 1)) & 1) && range != 0
                       && (range >> (c->range_bits - 1)) == 0)
                        DERR("%s: per range_bits=%d too large for %ld..%ld", td->name, c->range_bits,
                             c->lower_bound, c->upper_bound);
                }
                if(c->effective_bits > c->range_bits && c->range_bits >= 0)
                    DERR("%s: effective_bits > range_bits", td->name);
            }
        }
    }
#endif
    ssz = struct_size_of(td);
    switch(k) {
    case K_SEQUENCE: {
        const asn_SEQUENCE_specifics_t *s = td->specifics;
        unsigned opt_run = 0;
        if(!s) { DERR("%s: no specifics", td->name); break; }
        if(s->ctx_offset + sizeof(asn_struct_ctx_t) > s->struct_size) DERR("%s: ctx outside struct", td->name);
        if(s->first_extension >= 0 && (unsigned)s->first_extension > td->elements_count)
            DERR("%s: first_extension out of range", td->name);
        for(i = 0; i < s->tag2el_count; i++) {
            if(s->tag2el[i].el_no >= td->elements_count) DERR("%s: tag2el el_no out of range", td->name);
            if(i && tag_cmp(s->tag2el[i - 1].el_tag, s->tag2el[i].el_tag) > 0)
                DERR("%s: tag2el not sorted", td->name);
            if((int)i + s->tag2el[i].toff_first < 0 || (int)i + s->tag2el[i].toff_last >= (int)s->tag2el_count
               + 0)
                DERR("%s: tag2el toff out of range", td->name);
            else {
                /* toff_first / toff_last delimit the run of entries that carry exactly this tag (class and number) */
                unsigned lo = i, hi = i;
                while(lo > 0 && tag_cmp(s->tag2el[lo - 1].el_tag, s->tag2el[i].el_tag) == 0) lo--;
                while(hi + 1 < s->tag2el_count && tag_cmp(s->tag2el[hi + 1].el_tag, s->tag2el[i].el_tag) == 0) hi++;
                if((int)i + s->tag2el[i].toff_first != (int)lo || (int)i + s->tag2el[i].toff_last != (int)hi)
                    DERR("%s: tag2el entry %u (member %u): toff_first/toff_last %d/%d do not delimit the entries with the same tag (%u..%u)",
                         td->name, i, s->tag2el[i].el_no, s->tag2el[i].toff_first, s->tag2el[i].toff_last, lo, hi);
            }
        }
        for(i = 0; i < s->roms_count + s->aoms_count; i++) {
            if(!s->oms || s->oms[i] < 0 || (unsigned)s->oms[i] >= td->elements_count)
                DERR("%s: oms index out of range", td->name);
            else if(!td->elements[s->oms[i]].optional)
                DERR("%s: oms names non-optional member %d", td->name, s->oms[i]);
        }
        /* optional run lengths: elements[i].optional == number of consecutive optional members from i */
        for(i = td->elements_count; i-- > 0;) {
            if(td->elements[i].optional) {
                opt_run++;
                /* run must not cross the extension boundary */
                if(s->first_extension >= 0 && i + 1 == (unsigned)s->first_extension) opt_run = 1;
                if(td->elements[i].optional != opt_run && td->elements[i].optional > td->elements_count - i)
                    DERR("%s: optional run at %u is %u", td->name, i, td->elements[i].optional);
            } else opt_run = 0;
        }
        break;
    }
    case K_SET: {
        const asn_SET_specifics_t *s = td->specifics;
        if(!s) { DERR("%s: no specifics", td->name); break; }
        if(s->ctx_offset + sizeof(asn_struct_ctx_t) > s->struct_size) DERR("%s: ctx outside struct", td->name);
        if(s->pres_offset >= s->struct_size) DERR("%s: pres outside struct", td->name);
        for(i = 0; i < s->tag2el_count; i++) {
            if(s->tag2el[i].el_no >= td->elements_count) DERR("%s: tag2el el_no out of range", td->name);
            if(i && tag_cmp(s->tag2el[i - 1].el_tag, s->tag2el[i].el_tag) >= 0)
                DERR("%s: SET tag2el not strictly sorted", td->name);
        }
        for(i = 0; i < s->tag2el_cxer_count; i++)
            if(s->tag2el_cxer[i].el_no >= td->elements_count) DERR("%s: tag2el_cxer out of range", td->name);
        if(s->_mandatory_elements) {
            /* the bitmap of mandatory members (network byte order words, most significant bit first) must say
             * exactly what the member table says */
            for(i = 0; i < td->elements_count; i++) {
                const unsigned char *mb = (const unsigned char *)s->_mandatory_elements;
                int must = (mb[i / 8] >> (7 - (i % 8))) & 1;
                if(must != (td->elements[i].optional ? 0 : 1))
                    DERR("%s: SET mandatory map bit %u is %d, member %s is %s", td->name, i, must, td->elements[i].name,
                         td->elements[i].optional ? "optional" : "mandatory");
            }
        } else if(td->elements_count) DERR("%s: SET without mandatory map", td->name);
        break;
    }
    case K_CHOICE: case K_OPEN: {
        const asn_CHOICE_specifics_t *s = td->specifics;
        if(!s) { DERR("%s: no specifics", td->name); break; }
        if(s->ctx_offset + sizeof(asn_struct_ctx_t) > s->struct_size) DERR("%s: ctx outside struct", td->name);
        if(s->pres_offset + s->pres_size > s->struct_size) DERR("%s: pres outside struct", td->name);
        if(s->pres_size != 1 && s->pres_size != 2 && s->pres_size != 4) DERR("%s: pres_size", td->name);
        for(i = 0; i < s->tag2el_count; i++) {
            if(s->tag2el[i].el_no >= td->elements_count) DERR("%s: tag2el el_no out of range", td->name);
            if(i && tag_cmp(s->tag2el[i - 1].el_tag, s->tag2el[i].el_tag) >= 0 && k == K_CHOICE)
                DERR("%s: CHOICE tag2el not strictly sorted", td->name);
        }
        if(s->ext_start >= 0 && (unsigned)s->ext_start > td->elements_count) DERR("%s: ext_start", td->name);
        if(s->to_canonical_order && s->from_canonical_order) {
            for(i = 0; i < td->elements_count; i++) {
                unsigned c = s->to_canonical_order[i];
                if(c >= td->elements_count || s->from_canonical_order[c] != i)
                    DERR("%s: canonical order maps not inverse at %u", td->name, i);
            }
        }
        break;
    }
    case K_SET_OF: case K_SEQUENCE_OF: {
        const asn_SET_OF_specifics_t *s = td->specifics;
        if(!s) { DERR("%s: no specifics", td->name); break; }
        if(td->elements_count != 1) DERR("%s: OF elements_count != 1", td->name);
        if(s->ctx_offset + sizeof(asn_struct_ctx_t) > s->struct_size) DERR("%s: ctx outside struct", td->name);
        break;
    }
    case K_ENUMERATED: case K_NENUM: case K_INTEGER: case K_NINT: {
        const asn_INTEGER_specifics_t *s = td->specifics;
        int j;
        if(!s) { if(k == K_ENUMERATED || k == K_NENUM) DERR("%s: enum without specifics", td->name); break; }
        for(j = 0; j < s->map_count; j++) {
            if(j && s->value2enum[j - 1].nat_value >= s->value2enum[j].nat_value)
                DERR("%s: value2enum not sorted", td->name);
            if(s->enum2value) {
                if(s->enum2value[j] >= (unsigned)s->map_count) DERR("%s: enum2value out of range", td->name);
                else if(j && strcmp(s->value2enum[s->enum2value[j - 1]].enum_name,
                                    s->value2enum[s->enum2value[j]].enum_name) >= 0)
                    DERR("%s: enum2value not sorted by name", td->name);
            }
            if(strlen(s->value2enum[j].enum_name) != s->value2enum[j].enum_len)
                DERR("%s: enum_len mismatch", td->name);
        }
        break;
    }
    default: break;
    }
    for(i = 0; i < td->elements_count; i++) {
        const asn_TYPE_member_t *el = &td->elements[i];
        if(!el->type) { DERR("%s: member %u has no type", td->name, i); continue; }
        if(!el->name) DERR("%s: member %u has no name", td->name, i);
        if(k == K_SEQUENCE || k == K_SET || k == K_CHOICE) {
            size_t msz = (el->flags & ATF_POINTER) ? sizeof(void *) : struct_size_of(el->type);
            if(ssz && el->memb_offset + msz > ssz)
                DERR("%s: member %u (%s) offset %u + %zu beyond struct_size %zu", td->name, i, el->name,
                     el->memb_offset, msz, ssz);
        }
        if(dump) {
            fprintf(o, "R descmemb of=%s idx=%u name=%s type=%s flags=%d opt=%u tag=%u mode=%d dflt=%d sel=%d",
                    td->name[0] ? td->name : "-", i, el->name && el->name[0] ? el->name : "-",
                    el->type->name[0] ? el->type->name : "-", (int)el->flags, el->optional, (unsigned)el->tag,
                    el->tag_mode, el->default_value_cmp ? 1 : 0, el->type_selector ? 1 : 0);
            dump_constraints(o, &el->encoding_constraints);
            fprintf(o, "\n");
        }
        if(depth < 64) check_desc(o, el->type, depth + 1, dump);
    }
}

/* ------------------------------------------------------------------ */
static char *g_line;
static size_t g_linecap;

static void free_slot(struct slot *s) {
    if(s->ptr) {
        lib_begin();
        ASN_STRUCT_FREE(*s->td, s->ptr);
        lib_end();
    }
    s->ptr = 0; s->td = 0;
}

int main(int argc, char **argv) {
    FILE *in = stdin, *o = stdout;
    ssize_t ll;
    char *kv[64];
    if(argc > 1 && strcmp(argv[1], "-")) {
        in = fopen(argv[1], "r");
        if(!in) { perror(argv[1]); return 2; }
    }
    if(getenv("VDRV_WD")) g_wd = atoi(getenv("VDRV_WD"));
    g_null = fopen("/dev/null", "w");
    signal(SIGVTALRM, on_alarm);
    setvbuf(o, 0, _IOLBF, 0);
    srandom(12345);

    while((ll = getline(&g_line, &g_linecap, in)) > 0) {
        int n = 0;
        char *tok, *save = 0, *op;
        while(ll > 0 && (g_line[ll - 1] == '\n' || g_line[ll - 1] == '\r')) g_line[--ll] = 0;
        if(!ll || g_line[0] == '#') continue;
        op = strtok_r(g_line, " ", &save);
        if(!op) continue;
        while(n < 64 && (tok = strtok_r(0, " ", &save))) kv[n++] = tok;

        if(!strcmp(op, "B")) {
            g_case = n ? strtol(kv[0], 0, 10) : -1;
            fprintf(o, "BEGIN %ld\n", g_case);
            arm_watchdog(g_wd);
            continue;
        }
        if(!strcmp(op, "E")) {
            int i;
            for(i = 0; i < NSLOTS; i++) free_slot(&slots[i]);
            for(i = 0; i < NREGS; i++) { free(regs[i].b); regs[i].b = 0; regs[i].valid = 0; regs[i].n = 0; }
            arm_watchdog(0);
            if(HAVE_LEDGER) {
                char lv[128] = "";
                if(ledger_live) ledger_dump_live(lv, sizeof(lv));
                fprintf(o, "END %ld live=%ld livebytes=%ld sizes=%s\n", g_case, ledger_live, ledger_live_bytes,
                        lv[0] ? lv : "-");
                if(ledger_live) ledger_forget();
            } else {
                fprintf(o, "END %ld\n", g_case);
            }
            g_oom = -1;
            continue;
        }
        if(!strcmp(op, "oom")) {
            g_oom = argl(kv, n, "k", -1);
            continue;
        }
        if(!strcmp(op, "srand")) {
            srandom((unsigned)argl(kv, n, "seed", 1));
            continue;
        }
        if(!strcmp(op, "setreg")) {
            size_t nn; unsigned char *bb = unhex(arg(kv, n, "in"), &nn);
            reg_store(argl(kv, n, "r", 0), bb, nn);
            free(bb);
            fprintf(o, "R setreg n=%zu\n", nn);
            continue;
        }
        if(!strcmp(op, "list")) {
            int i;
            for(i = 0; asn_pdu_collection[i]; i++)
                fprintf(o, "R pdu name=%s kind=%s\n", asn_pdu_collection[i]->name,
                        kind_name(kind_of(asn_pdu_collection[i])));
            continue;
        }
        if(!strcmp(op, "dec")) {
            long s = argl(kv, n, "s", 0);
            const char *t = arg(kv, n, "t");
            struct dec_args a;
            unsigned char *inb; size_t inn;
            long thr = argl(kv, n, "thr", 0);
            memset(&a, 0, sizeof(a));
            if(s < 0 || s >= NSLOTS) { fprintf(o, "R dec error=badslot\n"); continue; }
            if(t) {
                asn_TYPE_descriptor_t *td = find_pdu(t);
                if(!td) { fprintf(o, "R dec error=nopdu\n"); continue; }
                if(slots[s].ptr && slots[s].td != td) free_slot(&slots[s]);
                slots[s].td = td;
            }
            if(!slots[s].td) { fprintf(o, "R dec error=notype\n"); continue; }
            if(arg(kv, n, "inreg")) {
                long r = argl(kv, n, "inreg", 0);
                if(r < 0 || r >= NREGS || !regs[r].valid) { fprintf(o, "R dec error=noreg\n"); continue; }
                inn = regs[r].n;
                inb = malloc(inn ? inn : 1);
                if(inn) memcpy(inb, regs[r].b, inn);
            } else {
                inb = unhex(arg(kv, n, "in"), &inn);
            }
            a.syn = syntax_of(arg(kv, n, "syn"), 1);
            a.td = slots[s].td; a.sptr = &slots[s].ptr; a.in = inb; a.n = inn;
            a.chunks = arg(kv, n, "chunks"); a.rest = (int)argl(kv, n, "rest", 1);
            a.stack = argl(kv, n, "stack", -1);
            a.with_ctx = (int)argl(kv, n, "ctx", 0);
            if(thr > 0) {
                pthread_t th; pthread_attr_t at;
                pthread_attr_init(&at);
                pthread_attr_setstacksize(&at, (size_t)thr);
                if(pthread_create(&th, &at, dec_thread, &a)) { fprintf(o, "R dec error=thread\n"); free(inb); continue; }
                pthread_join(th, 0);
            } else {
                do_decode(&a);
            }
            free(inb);
            fprintf(o, "R dec rc=%s consumed=%zu size=%zu calls=%d anomaly=%d errno=%d ptr=%d",
                    rcname(a.rc), a.consumed, inn, a.calls, a.anomaly, errno, slots[s].ptr ? 1 : 0);
            if(a.chunks) fprintf(o, " trace=%s", a.trace[0] ? a.trace : "-");
            if(a.with_ctx) fprintf(o, " ctxs=%s", a.ctxs[0] ? a.ctxs : "-");
            print_ledger(o);
            fprintf(o, "\n");
            g_oom = -1;
            continue;
        }
        if(!strcmp(op, "enc")) {
            long s = argl(kv, n, "s", 0);
            int syn = syntax_of(arg(kv, n, "syn"), 0);
            const char *bufs = arg(kv, n, "buf");
            int newbuf = (int)argl(kv, n, "newbuf", 0);
            int quiet = (int)argl(kv, n, "quiet", 0);
            if(s < 0 || s >= NSLOTS || !slots[s].td) { fprintf(o, "R enc error=badslot\n"); continue; }
            if(!slots[s].ptr) { fprintf(o, "R enc error=empty\n"); continue; }
            if(newbuf) {
                asn_encode_to_new_buffer_result_t r;
                lib_begin();
                r = asn_encode_to_new_buffer(0, syn, slots[s].td, slots[s].ptr);
                lib_end();
                fprintf(o, "R enc mode=new rc=%zd errno=%d bufnull=%d", r.result.encoded, errno, r.buffer ? 0 : 1);
                if(r.buffer && r.result.encoded >= 0) {
                    /* reads [0, encoded] inclusive: exact-length + NUL must be addressable */
                    fprintf(o, " nul=%d out=", ((char *)r.buffer)[r.result.encoded] == 0);
                    if(quiet) fprintf(o, "q"); else puthex(o, r.buffer, (size_t)r.result.encoded);
                }
                print_ledger(o);
                fprintf(o, "\n");
                if(r.buffer) { lib_begin(); FREEMEM(r.buffer); lib_end(); }
            } else if(argl(kv, n, "lnew", 0)) {
                /* uper_encode_to_new_buffer: grows its own buffer through REALLOC */
                void *nb = 0;
                ssize_t rc;
                errno = 0;
#ifndef ASN_DISABLE_PER_SUPPORT
                if(!uper_encode_to_new_buffer) { fprintf(o, "R enc error=nocodec\n"); continue; }
                lib_begin();
                rc = uper_encode_to_new_buffer(slots[s].td, 0, slots[s].ptr, &nb);
                lib_end();
#else
                fprintf(o, "R enc error=nocodec\n"); continue;
#endif
                fprintf(o, "R enc mode=lnew rc=%zd errno=%d bufnull=%d out=", rc, errno, nb ? 0 : 1);
                if(rc >= 0 && nb) { if(quiet) fprintf(o, "q"); else puthex(o, nb, (size_t)rc); } else fprintf(o, "-");
                print_ledger(o);
                fprintf(o, "\n");
                if(nb && rc >= 0) { lib_begin(); FREEMEM(nb); lib_end(); }
            } else if(bufs && argl(kv, n, "legacy", 0)) {
                /* the per-syntax entry points der_/oer_/uper_encode_to_buffer (exact-size heap buffer: ASan sees an overrun) */
                size_t bn = (size_t)strtoul(bufs, 0, 10);
                unsigned char *b = malloc(bn ? bn : 1);
                asn_enc_rval_t er;
                size_t bytes;
                memset(b, 0xA5, bn ? bn : 1);
                errno = 0;
                lib_begin();
                er.encoded = -1;
                if(syn == ATS_DER) er = der_encode_to_buffer(slots[s].td, slots[s].ptr, b, bn);
#ifndef ASN_DISABLE_OER_SUPPORT
                else if(syn == ATS_CANONICAL_OER && oer_encode_to_buffer) er = oer_encode_to_buffer(slots[s].td, 0, slots[s].ptr, b, bn);
#endif
#ifndef ASN_DISABLE_PER_SUPPORT
                else if(syn == ATS_UNALIGNED_CANONICAL_PER && uper_encode_to_buffer) er = uper_encode_to_buffer(slots[s].td, 0, slots[s].ptr, b, bn);
#endif
                else errno = ENOENT;
                lib_end();
                bytes = er.encoded < 0 ? 0 : (syn == ATS_DER || syn == ATS_CANONICAL_OER) ? (size_t)er.encoded : ((size_t)er.encoded + 7) / 8;
                fprintf(o, "R enc mode=lbuf size=%zu rc=%zd nbytes=%zu errno=%d out=", bn, er.encoded, bytes, errno);
                if(er.encoded >= 0 && bytes <= bn) { if(quiet) fprintf(o, "q"); else puthex(o, b, bytes); }
                else fprintf(o, er.encoded >= 0 ? "trunc" : "-");
                print_ledger(o);
                fprintf(o, "\n");
                free(b);
            } else if(bufs) {
                size_t bn = (size_t)strtoul(bufs, 0, 10);
                unsigned char *b = malloc(bn ? bn : 1);
                asn_enc_rval_t er;
                memset(b, 0xA5, bn ? bn : 1);
                lib_begin();
                er = asn_encode_to_buffer(0, syn, slots[s].td, slots[s].ptr, bn ? b : 0, bn);
                lib_end();
                fprintf(o, "R enc mode=buf size=%zu rc=%zd errno=%d out=", bn, er.encoded, errno);
                if(er.encoded >= 0) {
                    size_t m = (size_t)er.encoded < bn ? (size_t)er.encoded : bn;
                    if((size_t)er.encoded <= bn) { if(quiet) fprintf(o, "q"); else puthex(o, b, m); }
                    else fprintf(o, "trunc");
                } else fprintf(o, "-");
                print_ledger(o);
                fprintf(o, "\n");
                free(b);
            } else {
                struct cbk k;
                asn_enc_rval_t er;
                memset(&k, 0, sizeof(k));
                k.fail_at = argl(kv, n, "cbfail", -1);
                lib_begin();
                er = asn_encode(0, syn, slots[s].td, slots[s].ptr, cb_collect, &k);
                lib_end();
                fprintf(o, "R enc mode=cb rc=%zd errno=%d calls=%ld bytes=%ld cbfailed=%d failtype=%s out=",
                        er.encoded, errno, k.calls, k.bytes, k.failed,
                        (er.encoded < 0 && er.failed_type && er.failed_type->name[0]) ? er.failed_type->name : "-");
                if(quiet) fprintf(o, "q"); else puthex(o, k.buf, k.len);
                print_ledger(o);
                fprintf(o, "\n");
                if(arg(kv, n, "reg")) {
                    long r = argl(kv, n, "reg", 0);
                    if(er.encoded >= 0) reg_store(r, k.buf, k.len);
                    else if(r >= 0 && r < NREGS) regs[r].valid = 0;
                }
                free(k.buf);
            }
            g_oom = -1;
            continue;
        }
        if(!strcmp(op, "cmp")) {
            long a = argl(kv, n, "a", 0), b = argl(kv, n, "b", 1);
            int r;
            if(a < 0 || b < 0 || a >= NSLOTS || b >= NSLOTS || !slots[a].td || slots[a].td != slots[b].td) {
                fprintf(o, "R cmp error=badslots\n"); continue;
            }
            if(!slots[a].ptr || !slots[b].ptr) { fprintf(o, "R cmp error=empty\n"); continue; }
            lib_begin();
            r = slots[a].td->op->compare_struct(slots[a].td, slots[a].ptr, slots[b].ptr);
            lib_end();
            fprintf(o, "R cmp rc=%d\n", r);
            continue;
        }
        if(!strcmp(op, "chk")) {
            long s = argl(kv, n, "s", 0);
            long eb = argl(kv, n, "eb", 128);
            char *errbuf;
            size_t errlen = eb > 0 ? (size_t)eb : 0;
            int r, term = 0;
            size_t i;
            if(s < 0 || s >= NSLOTS || !slots[s].td || !slots[s].ptr) { fprintf(o, "R chk error=badslot\n"); continue; }
            if(arg(kv, n, "exact")) {
                /* buffers of exactly the message length and one byte either side (heap, so that ASan sees the edges) */
                char big[512];
                size_t bl = sizeof(big), want;
                int r0, d;
                lib_begin();
                r0 = asn_check_constraints(slots[s].td, slots[s].ptr, big, &bl);
                lib_end();
                fprintf(o, "R chkx rc=%d len=%zu", r0, r0 ? bl : (size_t)0);
                want = r0 ? bl : 8;
                for(d = -1; d <= 2; d++) {
                    size_t sz = (size_t)((long)want + d), el = sz, k;
                    char *xb;
                    int rr, tt = 0;
                    if(sz == 0) continue;
                    xb = malloc(sz);
                    memset(xb, 'Z', sz);
                    lib_begin();
                    rr = asn_check_constraints(slots[s].td, slots[s].ptr, xb, &el);
                    lib_end();
                    for(k = 0; k < sz; k++) if(!xb[k]) { tt = 1; break; }
                    fprintf(o, " sz%d=%zu:%d:%zu:%d", d + 1, sz, rr, el, tt);
                    free(xb);
                }
                fprintf(o, "\n");
                continue;
            }
            errbuf = malloc(eb > 0 ? (size_t)eb : 1);
            memset(errbuf, 'Z', eb > 0 ? (size_t)eb : 1);
            lib_begin();
            r = asn_check_constraints(slots[s].td, slots[s].ptr, eb >= 0 ? errbuf : 0, eb >= 0 ? &errlen : 0);
            lib_end();
            for(i = 0; eb > 0 && i < (size_t)eb; i++) if(!errbuf[i]) { term = 1; break; }
            fprintf(o, "R chk rc=%d eb=%ld errlen=%zu term=%d msg=", r, eb, errlen, term);
            if(r && eb > 0 && term) puthex(o, errbuf, strlen(errbuf)); else fprintf(o, "-");
            fprintf(o, "\n");
            free(errbuf);
            continue;
        }
        if(!strcmp(op, "prt")) {
            long s = argl(kv, n, "s", 0);
            int r;
            if(s < 0 || s >= NSLOTS || !slots[s].td || !slots[s].ptr) { fprintf(o, "R prt error=badslot\n"); continue; }
            lib_begin();
            r = asn_fprint(g_null, slots[s].td, slots[s].ptr);
            lib_end();
            fprintf(o, "R prt rc=%d\n", r);
            continue;
        }
        if(!strcmp(op, "free") || !strcmp(op, "reset") || !strcmp(op, "freec")) {
            long s = argl(kv, n, "s", 0);
            if(s < 0 || s >= NSLOTS || !slots[s].td) { fprintf(o, "R %s error=badslot\n", op); continue; }
            if(!strcmp(op, "free")) {
                free_slot(&slots[s]);
                fprintf(o, "R free ok=1\n");
            } else if(!slots[s].ptr) {
                fprintf(o, "R %s error=empty\n", op);
            } else if(!strcmp(op, "reset")) {
                size_t sz = struct_size_of(slots[s].td), i, nz = 0;
                lib_begin();
                ASN_STRUCT_RESET(*slots[s].td, slots[s].ptr);
                lib_end();
                for(i = 0; i < sz; i++) if(((unsigned char *)slots[s].ptr)[i]) nz++;
                fprintf(o, "R reset size=%zu nonzero=%zu\n", sz, nz);
            } else {
                lib_begin();
                ASN_STRUCT_FREE_CONTENTS_ONLY(*slots[s].td, slots[s].ptr);
                lib_end();
                /* the shell itself remains ours */
                free(slots[s].ptr);
                slots[s].ptr = 0;
                fprintf(o, "R freec ok=1\n");
            }
            continue;
        }
        if(!strcmp(op, "rnd")) {
            long s = argl(kv, n, "s", 0);
            const char *t = arg(kv, n, "t");
            asn_TYPE_descriptor_t *td = t ? find_pdu(t) : 0;
            int r;
            if(s < 0 || s >= NSLOTS || !td) { fprintf(o, "R rnd error=bad\n"); continue; }
            free_slot(&slots[s]);
            slots[s].td = td;
            if(!asn_random_fill) { fprintf(o, "R rnd error=unavailable\n"); continue; }
            lib_begin();
            r = asn_random_fill(td, &slots[s].ptr, (size_t)argl(kv, n, "max", 128));
            lib_end();
            fprintf(o, "R rnd rc=%d ptr=%d\n", r, slots[s].ptr ? 1 : 0);
            continue;
        }
        if(!strcmp(op, "xf")) {
            long s = argl(kv, n, "s", 0);
            struct xf x;
            memset(&x, 0, sizeof(x));
            x.kind = arg(kv, n, "kind");
            x.seed = (unsigned)argl(kv, n, "seed", 1);
            x.limit = (int)argl(kv, n, "limit", 0);
            x.skip = (int)argl(kv, n, "skip", 0);
            x.name = arg(kv, n, "name");
            if(s < 0 || s >= NSLOTS || !slots[s].td || !slots[s].ptr || !x.kind) { fprintf(o, "R xf error=bad\n"); continue; }
            walk(slots[s].td, slots[s].ptr, &x);
            fprintf(o, "R xf kind=%s count=%d\n", x.kind, x.count);
            continue;
        }
        if(!strcmp(op, "ctx")) {
            long s = argl(kv, n, "s", 0);
            const asn_struct_ctx_t *c = (s >= 0 && s < NSLOTS && slots[s].td) ? ctx_of(slots[s].td, slots[s].ptr) : 0;
            if(c) fprintf(o, "R ctx phase=%d step=%d context=%d ptr=%d left=%ld\n", c->phase, c->step, c->context,
                          c->ptr ? 1 : 0, (long)c->left);
            else fprintf(o, "R ctx none=1\n");
            continue;
        }
        if(!strcmp(op, "desc")) {
            const char *t = arg(kv, n, "t");
            int dump = (int)argl(kv, n, "dump", 1);
            int i;
            g_descerr = 0; seen_n = 0;
            for(i = 0; asn_pdu_collection[i]; i++) {
                if(t && strcmp(t, asn_pdu_collection[i]->name)) continue;
                check_desc(o, asn_pdu_collection[i], 0, dump);
            }
            fprintf(o, "R desc errors=%d types=%d\n", g_descerr, seen_n);
            continue;
        }
        fprintf(o, "R %s error=unknownop\n", op);
    }
    fprintf(o, "DONE\n");
    return 0;
}
