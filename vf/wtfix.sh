#!/bin/sh
# make a copied worktree self-contained: the autotools files generated in /repo bake /repo into abs_top_srcdir
wt=$1
cd $wt || exit 1
grep -q "ac_pwd='/repo'" config.status || grep -q "/repo" config.status || exit 0
sed -i "s#/repo#$wt#g" config.status
./config.status >/dev/null 2>&1
rm -rf tests/tests-c-compiler/test-check* tests/tests-randomized/.tmp.* 
grep -c "/repo" tests/tests-c-compiler/Makefile
