"""python3 -m vf.discover file.jsonl  : cluster discovery records by culprit feature id"""
import json, sys, collections
recs = [json.loads(l) for l in open(sys.argv[1])]
single = collections.defaultdict(list)
multi = []
for r in recs:
    ids = r["disc"]["ids"]
    if len(ids) == 1:
        single[ids[0]].append(r)
    else:
        multi.append(r)
culprits = set(single)
print("== single-node culprits")
for fid, rs in sorted(single.items()):
    syms = collections.Counter((r["key"].get("symptom"), r["key"].get("report", ""), r["key"].get("frame", "")) for r in rs)
    print(fid, dict(syms))
    print("     ", rs[0]["what"][:260].replace("\n", " "))
print("== multi-node violations not explained by a single-node culprit")
un = collections.defaultdict(list)
for r in multi:
    ids = set(r["disc"]["ids"])
    if ids & culprits:
        continue
    un[(r["key"].get("symptom"), r["key"].get("syntax"), r["key"].get("frame", ""))].append(r)
for k, rs in sorted(un.items(), key=lambda kv: str(kv[0])):
    print(k, len(rs))
    rs.sort(key=lambda r: len(r["disc"]["ids"]))
    for r in rs[:2]:
        print("     ids:", r["disc"]["ids"])
        print("     ", r["what"][:400].replace("\n", " "))
